/* Native replay for C03/C07 (hash, XOF, cXOF): the real /repo functions against
 * the native specification (spec_xof.h automaton with ref_permute). */
#include "r_common.h"
#include <ascon/xof.h>
#include <ascon/hash.h>
#include "hash/ascon-xof-internal.h"
#include "verif_canon.h"
#include "spec_xof.h"

static spec_state ivb(uint32_t hi, uint64_t lbits, const uint8_t name[32])
{ spec_state s; int i, j; s.x[0] = ((uint64_t)hi << 32) | (uint32_t)lbits;
  for (i = 0; i < 4; ++i) { s.x[1 + i] = 0; if (name) for (j = 0; j < 8; ++j) s.x[1 + i] = (s.x[1 + i] << 8) | name[8 * i + j]; } return s; }

static void ref_hash(const spec_sponge_params *pp, uint32_t hi, uint64_t lbits, const uint8_t *in, size_t n, uint8_t *out, size_t outlen)
{ spec_sponge sp; sp.s = ref_permute(ivb(hi, lbits, 0), 0); sp.count = 0; sp.mode = 0; spec_sponge_absorb(pp, &sp, in, n); spec_sponge_squeeze(pp, &sp, out, outlen); }

static void ref_cxof(const spec_sponge_params *pp, uint32_t hi, const char *name, const uint8_t *custom, size_t clen, size_t outlen_decl,
                     const uint8_t *in, size_t n, uint8_t *out, size_t outlen)
{
    uint8_t temp[32]; size_t nl = name ? strlen(name) : 0; spec_sponge sp; size_t L = outlen_decl >= ((size_t)1 << 29) ? 0 : outlen_decl;
    memset(temp, 0, 32);
    if (nl <= 32) memcpy(temp, name ? name : "", nl); else ref_hash(pp, hi, 256, (const uint8_t *)name, nl, temp, 32);
    sp.s = ref_permute(ivb(hi, L * 8, temp), 0); sp.count = 0; sp.mode = 0;
    if (clen) { spec_sponge_absorb(pp, &sp, custom, clen); sp.s = spec_separator(ref_permute(spec_pad(sp.s, sp.count), pp->round_absorb)); sp.count = 0; }
    spec_sponge_absorb(pp, &sp, in, n); spec_sponge_squeeze(pp, &sp, out, outlen);
}

#define FAMILY(X, H, PP, HI) \
static void test_##X(void) { \
    static uint8_t in[200], out[200], exp[200], cu[40]; size_t n, a, o, q; char name[48]; \
    for (n = 0; n <= 70; ++n) { \
        r_fill(in, n); \
        ref_hash(&PP, HI, 256, in, n, exp, 32); ascon_##H(out, in, n); if (memcmp(out, exp, 32)) R_FAIL("ascon_" #H " inlen=%zu differs from the specification", n); \
        ref_hash(&PP, HI, 0, in, n, exp, 32); ascon_##X(out, in, n); if (memcmp(out, exp, 32)) R_FAIL("ascon_" #X " inlen=%zu differs from the specification", n); \
        for (a = 0; a <= n; a += (n < 20 ? 1 : 5)) for (o = 0; o <= 41; o += 7) { \
            ascon_##X##_state_t st, cp; size_t total = 41 + o; \
            ref_hash(&PP, HI, 0, in, n, exp, total); \
            ascon_##X##_init(&st); ascon_##X##_absorb(&st, in, a); ascon_##X##_absorb(&st, in + a, 0); ascon_##X##_copy(&cp, &st); \
            ascon_##X##_absorb(&st, in + a, n - a); ascon_##X##_squeeze(&st, out, o); ascon_##X##_squeeze(&st, out + o, 0); ascon_##X##_squeeze(&st, out + o, 41); \
            if (memcmp(out, exp, total)) R_FAIL("ascon_" #X " chunked absorb %zu+%zu / squeeze %zu+41 differs from one-shot", a, n - a, o); \
            ascon_##X##_absorb(&cp, in + a, n - a); ascon_##X##_squeeze(&cp, out, total); \
            if (memcmp(out, exp, total)) R_FAIL("ascon_" #X "_copy taken after %zu absorbed bytes does not continue like the original", a); \
        } } \
    { size_t decl[] = {0, 1, 16, 31, 32, 33, 64, 100, (size_t)1 << 29, ((size_t)1 << 29) + 5}; unsigned d; \
      for (d = 0; d < sizeof(decl) / sizeof(decl[0]); ++d) { ascon_##X##_state_t st; size_t L = decl[d] >= ((size_t)1 << 29) ? 0 : decl[d]; r_fill(in, 20); \
        ref_hash(&PP, HI, L * 8, in, 20, exp, 40); ascon_##X##_init_fixed(&st, decl[d]); ascon_##X##_absorb(&st, in, 20); ascon_##X##_squeeze(&st, out, 40); \
        if (memcmp(out, exp, 40)) R_FAIL("ascon_" #X "_init_fixed declared length %zu differs from the specification", decl[d]); } } \
    for (q = 0; q <= 44; ++q) for (a = 0; a <= 17; a += (a < 2 ? 1 : 5)) for (o = 0; o < 3; ++o) { ascon_##X##_state_t st; size_t k, L = o == 0 ? 0 : (o == 1 ? 32 : 40); \
        for (k = 0; k < q; ++k) name[k] = (char)('A' + (r_u64() % 26)); name[q] = 0; r_fill(cu, a); r_fill(in, 13); \
        ref_cxof(&PP, HI, q ? name : (a & 1 ? 0 : ""), cu, a, L, in, 13, exp, 40); \
        ascon_##X##_init_custom(&st, q ? name : (a & 1 ? 0 : ""), a ? cu : 0, a, L); ascon_##X##_absorb(&st, in, 13); ascon_##X##_squeeze(&st, out, 40); \
        if (memcmp(out, exp, 40)) R_FAIL("ascon_" #X "_init_custom name length %zu custom length %zu declared %zu differs from the documented cXOF", q, a, L); } \
}
FAMILY(xof, hash, SPEC_XOF, 0x00400c00u)
FAMILY(xofa, hasha, SPEC_XOFA, 0x00400c04u)

#define L1TEST(X, T, PP) \
static void l1_##X(void) { unsigned c, m; size_t len; static uint8_t buf[80], exp[80]; \
    for (m = 0; m < 2; ++m) for (c = 0; c < (m ? PP.rate_out : PP.rate_in); ++c) for (len = 0; len <= 70; ++len) { \
        T st, st2; spec_sponge sp; r_fill(st.state.B, 40); st.count = (unsigned char)c; st.mode = (unsigned char)m; st2 = st; r_fill(buf, len); \
        sp.s = verif_canon(&st.state); sp.count = c; sp.mode = m; spec_sponge_absorb(&PP, &sp, buf, len); ascon_##X##_absorb(&st, buf, len); \
        if (!spec_eq(verif_canon(&st.state), sp.s) || st.count != sp.count || st.mode != sp.mode) R_FAIL("ascon_" #X "_absorb count=%u mode=%u len=%zu", c, m, len); \
        sp.s = verif_canon(&st2.state); sp.count = c; sp.mode = m; spec_sponge_squeeze(&PP, &sp, exp, len); ascon_##X##_squeeze(&st2, buf, len); \
        if (!spec_eq(verif_canon(&st2.state), sp.s) || st2.count != sp.count || st2.mode != sp.mode || memcmp(buf, exp, len)) R_FAIL("ascon_" #X "_squeeze count=%u mode=%u len=%zu", c, m, len); } }
L1TEST(xof, ascon_xof_state_t, SPEC_XOF)
L1TEST(xofa, ascon_xofa_state_t, SPEC_XOFA)

int main(int argc, char **argv)
{
    r_seed(argc > 2 ? strtoull(argv[2], 0, 10) : 0);
    l1_xof(); l1_xofa(); test_xof(); test_xofa();
    return r_finish("hash/XOF/cXOF: L1 sponge functions, one-shot, chunked, copied, fixed-length and customised entry points vs the specification");
}
