/* Native replay for C01/C02/C07/C14 (AEAD): the real /repo functions against the
 * native specification (spec_aead.h with ref_permute) over a grid of lengths,
 * entry positions and seeded random contents.  argv: <inputs-file> <seed>.
 * exit 1 + "REPRODUCED" if the real code disagrees with the specification. */
#include "r_common.h"
#include <ascon/aead.h>
#include <ascon/permutation.h>
#include "verif_canon.h"
#include "spec_aead.h"
#include "aead/ascon-aead-common.h"

typedef void (*enc_fn)(unsigned char *, size_t *, const unsigned char *, size_t, const unsigned char *, size_t, const unsigned char *, const unsigned char *);
typedef int (*dec_fn)(unsigned char *, size_t *, const unsigned char *, size_t, const unsigned char *, size_t, const unsigned char *, const unsigned char *);

static void ref_encrypt(const spec_aead_params *pa, unsigned char *c, const unsigned char *m, size_t mlen,
                        const unsigned char *ad, size_t adlen, const unsigned char *npub, const unsigned char *k)
{
    spec_state s = spec_aead_start(pa, k, npub, ad, adlen);
    s = SPEC_ENCRYPT(s, m, c, mlen, pa->rate, pa->round_b, 0);
    spec_aead_finalize(pa, s, (unsigned)(mlen % pa->rate), k, c + mlen);
}

static void nonce_add(unsigned char n[16], unsigned v)
{ int i; unsigned carry = v; for (i = 15; i >= 0; --i) { carry += n[i]; n[i] = (unsigned char)carry; carry >>= 8; } }

static void one_shot(const char *name, const spec_aead_params *pa, enc_fn enc, dec_fn dec)
{
    static unsigned char m[128], c[160], c2[160], m2[160], ad[128], k[20], n[16];
    size_t mlen, adlen, clen, olen;
    for (mlen = 0; mlen <= 70; ++mlen)
        for (adlen = 0; adlen <= 40; adlen += (adlen < 18 ? 1 : 7)) {
            r_fill(m, mlen); r_fill(ad, adlen); r_fill(k, 20); r_fill(n, 16);
            ref_encrypt(pa, c, m, mlen, ad, adlen, n, k);
            memset(c2, 0xA5, sizeof(c2)); clen = 0;
            enc(c2, &clen, m, mlen, adlen ? ad : 0, adlen, n, k);
            if (clen != mlen + 16 || memcmp(c, c2, mlen + 16)) { R_FAIL("%s encrypt mlen=%zu adlen=%zu differs from ASCON v1.2", name, mlen, adlen); r_hex("key", k, pa->keylen); r_hex("nonce", n, 16); }
            if (c2[mlen + 16] != 0xA5) R_FAIL("%s encrypt wrote past c[mlen+16) mlen=%zu", name, mlen);
            memset(m2, 0x5A, sizeof(m2)); olen = 999;
            if (dec(m2, &olen, c, mlen + 16, ad, adlen, n, k) != 0 || olen != mlen || memcmp(m2, m, mlen))
                R_FAIL("%s decrypt of a valid ciphertext mlen=%zu adlen=%zu fails", name, mlen, adlen);
            { size_t pos = (size_t)(r_u64() % (mlen + 16)); unsigned bit = (unsigned)(r_u64() % 8), i; int rc;
              memcpy(c2, c, mlen + 16); c2[pos] ^= (unsigned char)(1u << bit);
              memset(m2, 0x5A, sizeof(m2));
              rc = dec(m2, &olen, c2, mlen + 16, ad, adlen, n, k);
              if (rc >= 0) R_FAIL("%s decrypt accepts a modified ciphertext mlen=%zu flip@%zu", name, mlen, pos);
              for (i = 0; i < mlen; ++i) if (m2[i]) { R_FAIL("%s failed decrypt leaves plaintext byte %u non-zero (mlen=%zu)", name, i, mlen); break; } }
            if (mlen < 16) { olen = 12345; if (dec(m2, &olen, c, mlen, ad, adlen, n, k) >= 0) R_FAIL("%s decrypt accepts input shorter than the tag (clen=%zu)", name, mlen); }
        }
}

static void l1(void)
{
    static unsigned char src[80], dst[80], exp[80];
    unsigned R, p, r; size_t len;
    for (R = 8; R <= 16; R += 8)
      for (p = 0; p < R; ++p)
        for (len = 0; len <= 50; ++len)
          for (r = 0; r <= 12; r += 6) {
            ascon_state_t st, st2; unsigned pos; spec_state e; unsigned char ret;
            r_fill(st.B, 40); r_fill(src, len); st2 = st;
            pos = p; e = spec_encrypt_run(verif_canon(&st), &pos, src, exp, len, R, r);
            ret = R == 8 ? ascon_aead_encrypt_8(&st, dst, src, len, (uint8_t)r, (unsigned char)p) : ascon_aead_encrypt_16(&st, dst, src, len, (uint8_t)r, (unsigned char)p);
            if (ret != pos || !spec_eq(verif_canon(&st), e) || memcmp(dst, exp, len)) R_FAIL("ascon_aead_encrypt_%u partial=%u len=%zu first_round=%u", R, p, len, r);
            pos = p; e = spec_decrypt_run(verif_canon(&st2), &pos, src, exp, len, R, r);
            ret = R == 8 ? ascon_aead_decrypt_8(&st2, dst, src, len, (uint8_t)r, (unsigned char)p) : ascon_aead_decrypt_16(&st2, dst, src, len, (uint8_t)r, (unsigned char)p);
            if (ret != pos || !spec_eq(verif_canon(&st2), e) || memcmp(dst, exp, len)) R_FAIL("ascon_aead_decrypt_%u partial=%u len=%zu first_round=%u", R, p, len, r);
            if (p == 0) { int lp = (int)(len & 1);
                r_fill(st.B, 40); e = spec_absorb_all(verif_canon(&st), src, len, R, r, lp);
                if (R == 8) ascon_aead_absorb_8(&st, src, len, (uint8_t)r, lp); else ascon_aead_absorb_16(&st, src, len, (uint8_t)r, lp);
                if (!spec_eq(verif_canon(&st), e)) R_FAIL("ascon_aead_absorb_%u len=%zu first_round=%u last_permute=%d", R, len, r, lp); }
          }
}

static void check_tag(void)
{
    unsigned char t1[16], t2[16], pt[40], pt0[40]; int i, j;
    for (i = -1; i < 16; ++i) for (j = 0; j < 8; ++j) {
        int rc; size_t n = (size_t)(r_u64() % 40), q;
        r_fill(t1, 16); memcpy(t2, t1, 16); if (i >= 0) t2[i] ^= (unsigned char)(1u << j);
        r_fill(pt, n); memcpy(pt0, pt, n);
        rc = ascon_aead_check_tag(pt, n, t1, t2, 16);
        if (rc != (i < 0 ? 0 : -1)) R_FAIL("ascon_aead_check_tag returns %d for tags differing at byte %d bit %d", rc, i, j);
        for (q = 0; q < n; ++q) if (pt[q] != (i < 0 ? pt0[q] : 0)) { R_FAIL("ascon_aead_check_tag plaintext byte %zu wrong after %s", q, i < 0 ? "match" : "mismatch"); break; }
    }
}

#define INC_TEST(V, KL, PARAMS) \
static void inc_##V(void) { \
    static unsigned char m[100], c[120], c2[120], ad[40], k[20], n[16], n1[16], t[16]; size_t a, b, z, adlen; unsigned pkt; \
    for (a = 0; a <= 34; ++a) for (b = 0; b <= 34; b += 3) for (z = 0; z < 2; ++z) { \
        ascon##V##_state_t st; adlen = (a * 7 + b) % 30; \
        r_fill(m, a + b); r_fill(ad, adlen); r_fill(k, 20); r_fill(n, 16); if ((a + b) % 5 == 0) memset(n + 16 - (a % 17), 0xff, a % 17); \
        ascon##V##_aead_init(&st, n, k); \
        unsigned started = 0; \
        for (pkt = 0; pkt < 3; ++pkt) { \
            if (pkt == 1 && z && (a & 1)) { /* a packet that is started and abandoned still consumes a nonce */ \
                ascon##V##_aead_start(&st, ad, adlen); ascon##V##_aead_encrypt_block(&st, m, c2, a); ++started; } \
            memcpy(n1, n, 16); nonce_add(n1, started); ++started; \
            ref_encrypt(&PARAMS, c, m, a + b, ad, adlen, n1, k); \
            ascon##V##_aead_start(&st, adlen ? ad : 0, adlen); \
            ascon##V##_aead_encrypt_block(&st, m, c2, a); \
            if (z) ascon##V##_aead_encrypt_block(&st, m, c2 + a, 0); \
            ascon##V##_aead_encrypt_block(&st, m + a, c2 + a, b); \
            ascon##V##_aead_encrypt_finalize(&st, t); \
            if (memcmp(c, c2, a + b) || memcmp(c + a + b, t, 16)) R_FAIL("ascon" #V " incremental encrypt packet %u chunks %zu+%s%zu adlen=%zu differs from one-shot under nonce+%u", pkt, a, z ? "0+" : "", b, adlen, started - 1); \
        } \
        ascon##V##_aead_free(&st); } }
INC_TEST(128, 16, SPEC_ASCON128)
INC_TEST(128a, 16, SPEC_ASCON128A)
INC_TEST(80pq, 20, SPEC_ASCON80PQ)

static void nonce(void)
{
    unsigned char n[16], e[16]; int chain, i;
    for (chain = 0; chain <= 16; ++chain) {
        r_fill(n, 16); for (i = 0; i < chain; ++i) n[15 - i] = 0xff; if (chain < 16) n[15 - chain] &= 0xfe;
        memcpy(e, n, 16); nonce_add(e, 1); ascon_aead_increment_nonce(n);
        if (memcmp(n, e, 16)) R_FAIL("ascon_aead_increment_nonce wrong for a carry chain of %d bytes", chain);
    }
    { uint64_t v = r_u64(); int j; ascon_aead_set_counter(n, v);
      for (j = 0; j < 8; ++j) if (n[j] != 0 || n[8 + j] != (unsigned char)(v >> (56 - 8 * j))) { R_FAIL("ascon_aead_set_counter"); break; } }
}

int main(int argc, char **argv)
{
    r_seed(argc > 2 ? strtoull(argv[2], 0, 10) : 0);
    l1(); check_tag(); nonce();
    one_shot("ascon128", &SPEC_ASCON128, ascon128_aead_encrypt, ascon128_aead_decrypt);
    one_shot("ascon128a", &SPEC_ASCON128A, ascon128a_aead_encrypt, ascon128a_aead_decrypt);
    one_shot("ascon80pq", &SPEC_ASCON80PQ, ascon80pq_aead_encrypt, ascon80pq_aead_decrypt);
    inc_128(); inc_128a(); inc_80pq();
    return r_finish("AEAD: L1 duplex helpers, check_tag, nonce helpers, one-shot and incremental entry points vs ASCON v1.2");
}
