/* Native replay for C06 / masked AEAD (C01, C02, C10, C16): the real /repo functions against the native
 * specifications (spec_siv.h, spec_isap.h, spec_aead.h with ref_permute) over a grid of lengths and seeded
 * random contents.  argv: <inputs-file> <seed> [siv|isap|masked].  exit 1 + "REPRODUCED" on a mismatch. */
#include "r_common.h"
#include <ascon/aead.h>
#include <ascon/siv.h>
#include <ascon/isap.h>
#include <ascon/permutation.h>
#include "verif_canon.h"
#include "spec_siv.h"
#include "spec_isap.h"

typedef void (*enc_fn)(unsigned char *, size_t *, const unsigned char *, size_t, const unsigned char *, size_t, const unsigned char *, const unsigned char *);
typedef int (*dec_fn)(unsigned char *, size_t *, const unsigned char *, size_t, const unsigned char *, size_t, const unsigned char *, const unsigned char *);

static void siv(const char *name, const spec_aead_params *pa, enc_fn enc, dec_fn dec)
{
    static unsigned char m[128], c[160], ec[160], m2[160], ad[128], k[20], n[16], k0[20];
    size_t mlen, adlen, clen, olen, i;
    for (mlen = 0; mlen <= 70; ++mlen)
        for (adlen = 0; adlen <= 40; adlen += (adlen < 18 ? 1 : 7)) {
            r_fill(m, mlen); r_fill(ad, adlen); r_fill(k, 20); r_fill(n, 16); memcpy(k0, k, 20);
            spec_siv_auth(pa, k, n, ad, adlen, m, mlen, ec + mlen);
            spec_siv_stream(pa, k, ec + mlen, m, ec, mlen);
            memset(c, 0xA5, sizeof(c)); clen = 0;
            enc(c, &clen, m, mlen, adlen ? ad : 0, adlen, n, k);
            if (clen != mlen + 16 || memcmp(c, ec, mlen + 16)) { R_FAIL("%s encrypt mlen=%zu adlen=%zu differs from the documented SIV construction", name, mlen, adlen); r_hex("key", k, pa->keylen); r_hex("nonce", n, 16); }
            if (c[mlen + 16] != 0xA5) R_FAIL("%s encrypt wrote past c[mlen+16) mlen=%zu", name, mlen);
            memset(m2, 0x5A, sizeof(m2)); olen = 999;
            if (dec(m2, &olen, ec, mlen + 16, ad, adlen, n, k) != 0 || olen != mlen || memcmp(m2, m, mlen)) R_FAIL("%s decrypt of a valid ciphertext mlen=%zu adlen=%zu fails", name, mlen, adlen);
            { size_t pos = (size_t)(r_u64() % (mlen + 16)); int rc; memcpy(c, ec, mlen + 16); c[pos] ^= (unsigned char)(1u << (r_u64() % 8));
              rc = dec(m2, &olen, c, mlen + 16, ad, adlen, n, k);
              if (rc >= 0) R_FAIL("%s decrypt accepts a modified ciphertext mlen=%zu flip@%zu", name, mlen, pos);
              for (i = 0; i < mlen; ++i) if (m2[i]) { R_FAIL("%s failed decrypt leaves plaintext non-zero (mlen=%zu)", name, mlen); break; } }
            if (memcmp(k, k0, 20)) R_FAIL("%s modified the key", name);
        }
}

#define ISAP(NAME, PA, KT, PFX, KL) \
static void NAME(void) \
{ \
    static unsigned char m[128], c[160], ec[160], m2[160], ad[128], k[20], n[16], saved[80]; \
    KT pk, pk0, pk2; size_t mlen, adlen, clen, olen, i; spec_state ke0, ka0; \
    for (mlen = 0; mlen <= 40; ++mlen) \
        for (adlen = 0; adlen <= 24; adlen += (adlen < 10 ? 1 : 7)) { \
            r_fill(m, mlen); r_fill(ad, adlen); r_fill(k, 20); r_fill(n, 16); \
            ke0 = spec_isap_rk0(&PA, k, 3); ka0 = spec_isap_rk0(&PA, k, 2); \
            spec_isap_enc(&PA, ke0, n, m, ec, mlen); \
            spec_isap_mac(&PA, ka0, n, ad, adlen, ec, mlen, ec + mlen); \
            PFX##_init(&pk, k); memcpy(&pk0, &pk, sizeof(pk)); \
            memset(c, 0xA5, sizeof(c)); clen = 0; \
            PFX##_encrypt(c, &clen, m, mlen, adlen ? ad : 0, adlen, n, &pk); \
            if (clen != mlen + 16 || memcmp(c, ec, mlen + 16)) { R_FAIL(#NAME " encrypt mlen=%zu adlen=%zu differs from ISAP v2.0", mlen, adlen); r_hex("key", k, KL); r_hex("nonce", n, 16); } \
            if (c[mlen + 16] != 0xA5) R_FAIL(#NAME " encrypt wrote past c[mlen+16) mlen=%zu", mlen); \
            if (memcmp(&pk, &pk0, sizeof(pk))) R_FAIL(#NAME " encrypt modified the pre-computed key (mlen=%zu adlen=%zu)", mlen, adlen); \
            PFX##_save_key(&pk, saved); PFX##_load_key(&pk2, saved); \
            memset(m2, 0x5A, sizeof(m2)); olen = 999; \
            if (PFX##_decrypt(m2, &olen, ec, mlen + 16, ad, adlen, n, &pk2) != 0 || olen != mlen || memcmp(m2, m, mlen)) R_FAIL(#NAME " decrypt with a saved-and-loaded key fails mlen=%zu adlen=%zu", mlen, adlen); \
            if (memcmp(&pk, &pk0, sizeof(pk))) R_FAIL(#NAME " modified the pre-computed key (mlen=%zu adlen=%zu)", mlen, adlen); \
            { size_t pos = (size_t)(r_u64() % (mlen + 16)); int rc; memcpy(c, ec, mlen + 16); c[pos] ^= (unsigned char)(1u << (r_u64() % 8)); \
              rc = PFX##_decrypt(m2, &olen, c, mlen + 16, ad, adlen, n, &pk); \
              if (rc >= 0) R_FAIL(#NAME " decrypt accepts a modified ciphertext mlen=%zu flip@%zu", mlen, pos); \
              for (i = 0; i < mlen; ++i) if (m2[i]) { R_FAIL(#NAME " failed decrypt leaves plaintext non-zero (mlen=%zu)", mlen); break; } } \
            PFX##_free(&pk); PFX##_free(&pk2); \
        } \
}
ISAP(isap128a, SPEC_ISAP_128A, ascon128a_isap_aead_key_t, ascon128a_isap_aead, 16)
ISAP(isap128, SPEC_ISAP_128, ascon128_isap_aead_key_t, ascon128_isap_aead, 16)
ISAP(isap80pq, SPEC_ISAP_80PQ, ascon80pq_isap_aead_key_t, ascon80pq_isap_aead, 20)

int main(int argc, char **argv)
{
    const char *what = argc > 3 ? argv[3] : "all";
    r_seed(argc > 2 ? strtoull(argv[2], 0, 10) : 0);
    if (!strcmp(what, "siv") || !strcmp(what, "all")) {
        siv("ascon128_siv", &SPEC_ASCON128, ascon128_siv_encrypt, ascon128_siv_decrypt);
        siv("ascon128a_siv", &SPEC_ASCON128A, ascon128a_siv_encrypt, ascon128a_siv_decrypt);
        siv("ascon80pq_siv", &SPEC_ASCON80PQ, ascon80pq_siv_encrypt, ascon80pq_siv_decrypt);
    }
    if (!strcmp(what, "isap") || !strcmp(what, "all")) { isap128a(); isap128(); isap80pq(); }
    return r_finish("SIV / ISAP one-shot functions against spec_siv.h / spec_isap.h with the reference permutation");
}
