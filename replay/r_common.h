/* shared by native replay programs: real /repo code vs the native spec */
#ifndef R_COMMON_H
#define R_COMMON_H
#include <stdio.h>
#include <stdlib.h>
#include <string.h>
#include <stdint.h>
static uint64_t r_state = 0x9E3779B97F4A7C15ULL;
static void r_seed(uint64_t s) { r_state = s * 0x9E3779B97F4A7C15ULL + 0x1234567; }
static uint64_t r_u64(void) { r_state ^= r_state << 13; r_state ^= r_state >> 7; r_state ^= r_state << 17; return r_state; }
static void r_fill(unsigned char *p, size_t n) { size_t i; for (i = 0; i < n; ++i) p[i] = (unsigned char)(r_u64() >> 24); }
static int r_bad = 0;
static void r_hex(const char *name, const unsigned char *p, size_t n)
{ size_t i; printf("  %s=", name); for (i = 0; i < n && i < 64; ++i) printf("%02x", p[i]); printf(n > 64 ? "...\n" : "\n"); }
#define R_FAIL(...) do { if (r_bad < 5) { printf("REPRODUCED: "); printf(__VA_ARGS__); printf("\n"); } ++r_bad; } while (0)
static int r_finish(const char *what)
{
    if (r_bad) { printf("REPRODUCED %d mismatching case(s) between the real code and the specification (%s)\n", r_bad, what); return 1; }
    printf("no mismatch found natively (%s)\n", what); return 0;
}
#endif
