/* Native replay for the masked AEAD groups (C01, C02, C10, C16): the real masked one-shot functions (64-bit C
 * masked backend, real masked permutations) against the real unmasked AEAD functions of the same tree (which are
 * themselves tied to ASCON v1.2 by r_aead.c), over a grid of lengths, seeded random contents and a seeded
 * pseudo-random TRNG tape.  argv: <inputs-file> <seed>.  exit 1 + "REPRODUCED" on a mismatch. */
#include "r_common.h"
#include <ascon/aead.h>
#include <ascon/masking.h>
#include <ascon/aead-masked.h>
#include "random/ascon-trng.h"

int ascon_trng_init(ascon_trng_state_t *state) { (void)state; return 1; }
void ascon_trng_free(ascon_trng_state_t *state) { (void)state; }
uint32_t ascon_trng_generate_32(ascon_trng_state_t *state) { (void)state; return (uint32_t)r_u64(); }
uint64_t ascon_trng_generate_64(ascon_trng_state_t *state) { (void)state; return r_u64(); }
int ascon_trng_reseed(ascon_trng_state_t *state) { (void)state; return 1; }

#define MASKED(NAME, KT, KINIT, MENC, MDEC, ENC, KL) \
static void NAME(void) \
{ \
    static unsigned char m[128], c[160], ec[160], m2[160], ad[128], k[20], n[16]; \
    KT mk, mk0; size_t mlen, adlen, clen, olen, i; \
    for (mlen = 0; mlen <= 50; ++mlen) \
        for (adlen = 0; adlen <= 34; adlen += (adlen < 18 ? 1 : 5)) { \
            r_fill(m, mlen); r_fill(ad, adlen); r_fill(k, 20); r_fill(n, 16); \
            ENC(ec, &clen, m, mlen, ad, adlen, n, k); \
            KINIT(&mk, k); memcpy(&mk0, &mk, sizeof(mk)); \
            memset(c, 0xA5, sizeof(c)); clen = 0; \
            MENC(c, &clen, m, mlen, adlen ? ad : 0, adlen, n, &mk); \
            if (clen != mlen + 16 || memcmp(c, ec, mlen + 16)) { R_FAIL(#NAME " masked encrypt mlen=%zu adlen=%zu differs from the unmasked cipher", mlen, adlen); r_hex("key", k, KL); r_hex("nonce", n, 16); } \
            if (c[mlen + 16] != 0xA5) R_FAIL(#NAME " masked encrypt wrote past c[mlen+16) mlen=%zu", mlen); \
            memset(m2, 0x5A, sizeof(m2)); olen = 999; \
            if (MDEC(m2, &olen, ec, mlen + 16, ad, adlen, n, &mk) != 0 || olen != mlen || memcmp(m2, m, mlen)) R_FAIL(#NAME " masked decrypt of a valid ciphertext mlen=%zu adlen=%zu fails", mlen, adlen); \
            { size_t pos = (size_t)(r_u64() % (mlen + 16)); int rc; memcpy(c, ec, mlen + 16); c[pos] ^= (unsigned char)(1u << (r_u64() % 8)); \
              rc = MDEC(m2, &olen, c, mlen + 16, ad, adlen, n, &mk); \
              if (rc >= 0) R_FAIL(#NAME " masked decrypt accepts a modified ciphertext mlen=%zu flip@%zu", mlen, pos); \
              for (i = 0; i < mlen; ++i) if (m2[i]) { R_FAIL(#NAME " failed masked decrypt leaves plaintext non-zero (mlen=%zu)", mlen); break; } } \
            if (memcmp(&mk, &mk0, sizeof(mk))) R_FAIL(#NAME " modified the caller's const masked key (mlen=%zu adlen=%zu)", mlen, adlen); \
        } \
}
MASKED(m128, ascon_masked_key_128_t, ascon_masked_key_128_init, ascon128_masked_aead_encrypt, ascon128_masked_aead_decrypt, ascon128_aead_encrypt, 16)
MASKED(m128a, ascon_masked_key_128_t, ascon_masked_key_128_init, ascon128a_masked_aead_encrypt, ascon128a_masked_aead_decrypt, ascon128a_aead_encrypt, 16)
MASKED(m80pq, ascon_masked_key_160_t, ascon_masked_key_160_init, ascon80pq_masked_aead_encrypt, ascon80pq_masked_aead_decrypt, ascon80pq_aead_encrypt, 20)

int main(int argc, char **argv)
{
    r_seed(argc > 2 ? strtoull(argv[2], 0, 10) : 0);
    m128(); m128a(); m80pq();
    return r_finish("masked one-shot AEAD against the unmasked AEAD of the same tree");
}
