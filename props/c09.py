"""C09 - results are identical for every build configuration of the library."""
from driver import Group
from props import common, c08

LEVEL = "proof"
EXPLANATION = (
    "All contracts are phrased over canon(), the canonical big-endian view, which hides the state representation; equality "
    "of results across configurations is transitivity through the one specification. Re-proved here per configuration: the "
    "permutation contract under each C backend (64-bit, direct-xor variant, 32-bit bit-sliced) and for the lifted assembly backends (x86-64, i386, RISC-V x3, AArch64, ARMv6/v7-M/v6-M, Xtensa, m68k, AVR5); the pre-computed initial "
    "values of XOF/XOFA/HASH/HASHA and the fixed-length tables in each of the three encodings (uint64[5], bit-sliced "
    "uint32[10], uint8[40]) equal p^12 of the specification's IV block, i.e. what the generic path computes; the masked-word "
    "toolkit and masked keys for every share count (MAX_SHARES 2, 3, 4; key shares 2, 3, 4); and, in the build that enables "
    "the library's own acquire/release balance checker, each incremental sponge function returns released and abort() is "
    "unreachable for every sampled (count, mode, length)."
)
ASSUMPTIONS = [
    "the assembly permutations of all twelve backends are re-proved through the instruction lifters of C08 (their instruction tables are trusted; quick tier: x86-64, RISC-V, AArch64, Xtensa; thorough: all); masked assembly other than x86-64 is not covered; the higher-level compositions (C01-C07) are proved in the 64-bit C configuration and rely on the per-backend permutation/byte-operation contracts for the others",
    "acquire/release groups: the permutation is a frame-only stub; entry (count, mode, length) triples are sampled",
]

XS = {"xof": ("ascon_xof_state_t", ["src/hash/ascon-xof.c"], 8, 8), "xofa": ("ascon_xofa_state_t", ["src/hash/ascon-xofa.c"], 8, 8),
      "prf": ("ascon_prf_state_t", ["src/mac/ascon-prf.c"], 32, 16)}


def acqrel_groups(tier):
    gs = []
    for fam, (T, srcs, rin, rout) in XS.items():
        for op in ("absorb", "squeeze"):
            for mode in (0, 1):
                r = rin if mode == 0 else rout
                rate = rin if op == "absorb" else rout
                for c in sorted({0, 1, r - 1, 3}):
                    for ln in sorted({0, 1, 3, 4, rate - c if rate > c else 1, rate, rate + 1, 2 * rate + 1}):
                        gs.append(Group("c09.acqrel.ascon_%s_%s.c%d.m%d.len%d" % (fam, op, c, mode, ln), ["C09"], "harness/h_acqrel.c", "h_acqrel",
                                        srcs + ["src/core/ascon-clean.c"], cfg="GENCHK",
                                        defs=["VERIF_FN=ascon_%s_%s" % (fam, op), "VERIF_T=" + T, "VERIF_COUNT=%d" % c, "VERIF_MODE=%d" % mode,
                                              "VERIF_LEN=%d" % ln], functions=["ascon_%s_%s" % (fam, op)], drop_unused=True, unwind=70,
                                        timeout=600, expect_classes=["assertion"]))
    return gs


def groups(tier):
    gs = []
    for cfg in ("C64", "C32", "DX"):
        for g in c08.permute_groups(cfg, props=("C09",)):
            g.name = g.name.replace("c08.", "c09.")
            gs.append(g)
    gs += c08.asm_groups(props=("C09",), prefix="c09")      # the backend the default build selects on this host
    # every other assembly backend of the plain permutation (lifted): the same contract over the canonical view
    gs += c08.riscv_groups(props=("C09",), prefix="c09") + c08.arm64_groups(props=("C09",), prefix="c09") + c08.xtensa_groups(props=("C09",), prefix="c09")
    if tier == "thorough":
        gs += c08.i386_groups(props=("C09",), prefix="c09") + c08.arm32_groups(props=("C09",), prefix="c09") + \
              c08.m68k_groups(props=("C09",), prefix="c09") + c08.avr_groups(props=("C09",), prefix="c09", rounds=(0, 6, 11))
    for cfg in ("C64", "C32", "DX"):
        gs += [g for g in common.xof_l2_groups("c09", ["C09"], cfg=cfg) if ("_init." in g.name + "." or "init_fixed.tables" in g.name) and "reinit" not in g.name]
    gs += common.kmac_table_groups("c09", ["C09"])
    import os
    gs += c08.byteop_enum_groups("C32", "quick", int(os.environ.get("VERIF_SEED", "0") or 0), props=("C09",), prefix="c09")
    # the assembly masked backend in every word layout (ASCON_MASKED_MAX_SHARES 4, 3, 2)
    for ms in (4, 3, 2):
        gs += common.masked_word_groups("c09", ["C09"], cfg="DEF", max_shares=ms)
    if tier == "thorough":
        gs += [g for g in common.masked_asm_permute_groups("c09", ["C09"], "thorough", layouts=(3, 2)) if ".round12" in g.name or ".round0" in g.name or ".round6" in g.name]
    for ms in (2, 3, 4):
        gs += common.masked_word_groups("c09", ["C09"], max_shares=ms)
    gs += common.masked_key_groups("c09", ["C09"])
    gs += acqrel_groups(tier)
    return gs
