"""C08 - permutation and state primitives act as specified on every host C backend."""
from driver import Group

LEVEL = "proof"
EXPLANATION = (
    "ascon_permute of every C backend (ascon-c64.c in its sliced64 and direct-xor variants, ascon-c32.c bit-sliced) "
    "is proved equal to the reference permutation ref_permute (written from ASCON v1.2 section 2.6) for all 2^320 "
    "states and all start rounds 0..12, by a lemma/use pair cut at the round loop: stage A proves, with the loop "
    "abstracted by a structural invariant, that ONE iteration from an ARBITRARY state and round number equals "
    "ref_round; stage B proves by loop contract that the function is the composition of the iterations "
    "first_round..11 and enforces the function contract canon(state') == T[12] with its frame, assuming at the "
    "bottom of the body exactly the formula stage A asserts there. The byte operations (add, overwrite, zero, "
    "extract, extract-and-add, extract-and-overwrite, init, copy) are enforced against contracts over the 40 "
    "canonical big-endian bytes (whole view: addressed bytes specified, all others unchanged) for every offset and "
    "size that fits; their loops are bounded by 40 and fully unwound with unwinding assertions (complete). "
    "The x86-64 ASSEMBLY ascon_permute (the backend every default build on this host uses, and the one the test suite "
    "exercises) is lifted to C instruction by instruction on every run by tools/lift_x86_64.py (what the extraction keeps, "
    "drops and trusts is stated in that file and in the assumptions) and the same contract is enforced on the lifted "
    "function for all 2^320 states and all start rounds 0..255: each label of the unrolled code is a cut point where the "
    "registers rax, rcx, ~rdx, r8, r9 must equal ref_round of the previous cut; the first cut reached must be the one of "
    "round first_round (the jump-table obligation); callee-saved registers are restored, the stack is balanced, and only "
    "*state is written (assigns). The i386 ASSEMBLY ascon_permute (32-bit bit-sliced layout, arguments and locals on the "
    "stack) is lifted by tools/lift_i386.py and proved the same way: at every round label the even halves (ebx, ecx, ~edx, "
    "esi, edi) and odd halves (five stack slots) interleave to ref_round of the previous cut. The three RISC-V ASSEMBLY "
    "permutations (RV64I; RV32I and RV32E in the bit-sliced layout, RV32E keeping the odd halves in the state memory) and "
    "the AArch64 ASSEMBLY permutation (tools/lift_arm64.py; the upper bits of the argument register are arbitrary, as AAPCS64 "
    "allows) and the ARMv6 / ARMv7-M / ARMv6-M ASSEMBLY permutations (tools/lift_arm32.py; bit-sliced halves in low / high registers) and the Xtensa, m68k and AVR5 permutations (tools/lift_xtensa.py, lift_m68k.py, lift_avr.py) are lifted and "
    "proved the same way."
)
ASSUMPTIONS = [
    "x86-64 assembly: verified through tools/lift_x86_64.py (trusted: its instruction table for movq/xorq/andq/notq/rorq/pushq/popq/cmpq+jge/jmp/ret and the leaq-movslq-addq-jmp* jump-table idiom; System V argument registers, first_round arriving zero-extended in rsi; gas assembling the text it is given; only the Linux/ELF preprocessor variant of prologue/epilogue). i386 assembly: through tools/lift_i386.py (trusted: its table for movl/xorl/andl/notl/rorl/pushl/popl/cmpl+je/jmp/ret, static %esp tracking, cdecl). RISC-V assembly: through tools/lift_riscv.py (trusted: its table for ld/lw/sd/sw/not/li/xor/or/and/xori/slli/srli/addi sp/beq/j/ret, static sp tracking, the psABI). AArch64: tools/lift_arm64.py (ldr/ldp/str/stp/mov/mvn/eor/bic with ror-shifted operand/ror/cmp+beq/b/ret, AAPCS64). ARMv6 / ARMv7-M / ARMv6-M: tools/lift_arm32.py (push/pop/ldr/str incl. sp-relative/mov/mvn/eor/and/bic with ror-shifted operand/rors by register/lsls/cmp+beq,bhi/b/bl as far branch/the adr-ldr-add-mov pc jump-table idiom, flag-setting forms as plain forms, AAPCS32). Xtensa (call0 ABI variant): tools/lift_xtensa.py (l32i/s32i/movi/mov/xor/and/ssai+src funnel shift/beqi/beqz/beq/j/ret). m68k: tools/lift_m68k.py (link/unlk/rts, move.l/movea.l/moveq.l, not/eor/eori/and, ror by immediate or register, cmpi+jbeq, jmp; cdecl). AVR5: tools/lift_avr.py (8-bit registers, carry and T flags as the ISA defines them for the instructions used, ldd/std through Z = the state pointer, cpse as a guard, avr-gcc ABI with r1 == 0); start rounds 0..11 only (the do-while loop of this backend has no zero-round case); quick tier: start rounds 0, 4, 6, 11",
    "byte operations of the 32-bit bit-sliced backend: init, copy (and, thorough tier, add and overwrite) with symbolic offset/size; overwrite_with_zeroes and the extract family by ENUMERATION of constant (offset, size) pairs - all 861 pairs in the thorough tier, a seed-rotated sample of ~30 in the quick tier - because with symbolic offsets the extract family exhausts the solver and ascon_overwrite_with_zeroes hits the CBMC 6.11 union anomaly (state->S[i] = 0 followed by a read through W[] is reported non-zero for offset 12, size 19, although the same pair passes as constants and natively); add/overwrite of this backend are not in the quick tier",
    "start rounds above 12 are outside the contract (the 32-bit backend forms the pointer RC + 2*first_round, which is only defined up to 12)",
]
TRUSTED = []

BYTEOPS = ["ascon_add_bytes", "ascon_overwrite_bytes", "ascon_overwrite_with_zeroes", "ascon_extract_bytes",
           "ascon_extract_and_add_bytes", "ascon_extract_and_overwrite_bytes", "ascon_init", "ascon_copy"]

BACKEND_SRC = {"C64": "src/core/ascon-sliced64.c", "DEF": "src/core/ascon-sliced64.c",
               "C32": "src/core/ascon-sliced32.c", "DX": "src/core/ascon-direct-xor.c", "GEN": "src/core/ascon-direct-xor.c"}


def permute_groups(cfg, props=("C08",)):
    src = "src/core/ascon-c32.c" if cfg == "C32" else "src/core/ascon-c64.c"
    lc = "permute_c32" if cfg == "C32" else "permute_c64"
    pre = ["ascon_permute.0:2", "ascon_permute.1:2"] if cfg == "C32" else []
    gs = []
    for st in ("A", "B"):
        gs.append(Group("c08.permute.%s.stage%s" % (cfg, st), props, "harness/h_permute.c", "h_permute", [src], cfg=cfg,
                        enforce="ascon_permute" if st == "B" else None,
                        defs=["VERIF_STAGE_" + st, "VERIF_LC_" + lc],
                        contracts=["contracts/c_permute_enforce.h"] if st == "B" else [],
                        loop_contracts=True, unwind_pre=pre, functions=["ascon_permute"],
                        expect_classes=["loop_invariant_step", "loop_invariant_base"] + (["postcondition", "assigns"] if st == "B" else ["assertion"]),
                        timeout=900))
    return gs


ASM_SIG = ["--fn=ascon_permute:void:ascon_state_t * state,uint8_t first_round", "--fn=ascon_backend_free:void:ascon_state_t * state"]


def asm_groups(props=("C08",), prefix="c08"):
    """x86-64 assembly permutation, lifted on every run (DEF config = what the default build selects)."""
    return [
        Group(prefix + ".permute.x86_64_asm", props, "harness/h_permute_asm.c", "h_permute_asm", [], cfg="DEF",
              enforce="ascon_permute", defs=["VERIF_ANY_FIRST_ROUND"], contracts=["contracts/c_permute_enforce.h"],
              lift=("src/core/ascon-asm-x86-64.S", ASM_SIG), timeout=900, functions=["ascon_permute (x86-64 assembly, lifted)"],
              expect_classes=["postcondition", "assigns", "assertion"],
              note="every instruction of the assembly function is one C statement; cut points at the 13 round labels"),
        Group(prefix + ".backend_free.x86_64_asm", props, "harness/h_permute_asm.c", "h_permute_asm", [], cfg="DEF",
              enforce="ascon_backend_free", defs=["VERIF_BACKEND_FREE"], contracts=["contracts/c_backend_free.h"],
              lift=("src/core/ascon-asm-x86-64.S", ASM_SIG), timeout=300, functions=["ascon_backend_free (x86-64 assembly, lifted)"],
              expect_classes=["assertion"]),
    ]


def i386_groups(props=("C08",), prefix="c08"):
    """i386 assembly permutation (bit-sliced 32-bit state layout), lifted on every run by tools/lift_i386.py."""
    return [Group(prefix + ".permute.i386_asm", props, "harness/h_permute_i386.c", "h_permute_i386", [], cfg="C32",
                  enforce="ascon_permute", defs=["VERIF_ANY_FIRST_ROUND"], contracts=["contracts/c_permute_enforce.h"],
                  lift=("src/core/ascon-asm-i386.S", ["--fn=ascon_permute:void:ascon_state_t * state,uint8_t first_round"]),
                  timeout=1800, functions=["ascon_permute (i386 assembly, lifted)"], expect_classes=["postcondition", "assigns", "assertion"],
                  note="cut points at the 13 round labels; %esp tracked statically; registers ebx, ecx, ~edx, esi, edi + stack slots")]


RISCV = {"riscv64i": ("C64", 64, 64, []), "riscv32i": ("C32", 32, 32, []), "riscv32e": ("C32", 320, 32, ["--cpp=-D__riscv_32e=1"])}


def riscv_groups(props=("C08",), prefix="c08"):
    """RISC-V assembly permutations (RV64I: 64-bit layout; RV32I / RV32E: bit-sliced 32-bit layout), lifted by tools/lift_riscv.py."""
    gs = []
    for v, (cfg, tag, xlen, extra) in RISCV.items():
        sig = ["--fn=ascon_permute:void:ascon_state_t * state,uint8_t first_round", "--fn=ascon_backend_free:void:ascon_state_t * state",
               "--xlen=%d" % xlen] + extra
        gs.append(Group("%s.permute.%s_asm" % (prefix, v), props, "harness/h_permute_asm.c", "h_permute_asm", [], cfg=cfg,
                        enforce="ascon_permute", defs=["VERIF_ANY_FIRST_ROUND", 'VERIF_GHOST_HEADER="ghost_asm_riscv.h"', "VERIF_RISCV=%d" % tag],
                        contracts=["contracts/c_permute_enforce.h"], lift=("src/core/ascon-asm-%s.S" % v, sig), timeout=1800,
                        functions=["ascon_permute (%s assembly, lifted)" % v], expect_classes=["postcondition", "assigns", "assertion"],
                        note="cut points at the 13 round labels; sp tracked statically"))
    return gs


def arm64_groups(props=("C08",), prefix="c08"):
    """AArch64 assembly permutation (64-bit layout), lifted by tools/lift_arm64.py."""
    sig = ["--fn=ascon_permute:void:ascon_state_t * state,uint8_t first_round", "--fn=ascon_backend_free:void:ascon_state_t * state"]
    return [Group(prefix + ".permute.armv8a_64_asm", props, "harness/h_permute_asm.c", "h_permute_asm", [], cfg="C64",
                  enforce="ascon_permute", defs=["VERIF_ANY_FIRST_ROUND", 'VERIF_GHOST_HEADER="ghost_asm_arm64.h"'],
                  contracts=["contracts/c_permute_enforce.h"], lift=("src/core/ascon-asm-armv8a-64.S", sig), timeout=1800,
                  functions=["ascon_permute (AArch64 assembly, lifted)"], expect_classes=["postcondition", "assigns", "assertion"],
                  note="cut points at the 13 round labels; upper bits of the 8-bit argument register arbitrary")]


def arm32_groups(props=("C08",), prefix="c08"):
    """ARMv6 (ARM mode), ARMv7-M (Thumb-2) and ARMv6-M (Thumb-1, jump table, high registers) assembly permutations (bit-sliced 32-bit layout), lifted by tools/lift_arm32.py."""
    gs = []
    for v in ("armv6", "armv7m", "armv6m"):
        sig = ["--fn=ascon_permute:void:ascon_state_t * state,uint8_t first_round", "--arch=" + v]
        gh = "ghost_asm_armv6m.h" if v == "armv6m" else "ghost_asm_arm32.h"
        gs.append(Group("%s.permute.%s_asm" % (prefix, v), props, "harness/h_permute_asm.c", "h_permute_asm", [], cfg="C32",
                        enforce="ascon_permute", defs=["VERIF_ANY_FIRST_ROUND", 'VERIF_GHOST_HEADER="%s"' % gh],
                        contracts=["contracts/c_permute_enforce.h"], lift=("src/core/ascon-asm-%s.S" % v, sig), timeout=1800,
                        functions=["ascon_permute (%s assembly, lifted)" % v], expect_classes=["postcondition", "assigns", "assertion"],
                        note="cut points at the 13 round labels; push/pop on a statically tracked frame; pop {..., pc} is the return"))
    return gs


def xtensa_groups(props=("C08",), prefix="c08"):
    """Xtensa (call0 ABI) assembly permutation (64-bit words as 32-bit register pairs), lifted by tools/lift_xtensa.py."""
    sig = ["--fn=ascon_permute:void:ascon_state_t * state,uint8_t first_round", "--fn=ascon_backend_free:void:ascon_state_t * state"]
    return [Group(prefix + ".permute.xtensa_asm", props, "harness/h_permute_asm.c", "h_permute_asm", [], cfg="C64",
                  enforce="ascon_permute", defs=["VERIF_ANY_FIRST_ROUND", 'VERIF_GHOST_HEADER="ghost_asm_xtensa.h"'],
                  contracts=["contracts/c_permute_enforce.h"], lift=("src/core/ascon-asm-xtensa.S", sig), timeout=1800,
                  functions=["ascon_permute (Xtensa assembly, lifted)"], expect_classes=["postcondition", "assigns", "assertion"],
                  note="cut points at the 13 round labels; ssai/src funnel shifts; sp tracked statically")]


def m68k_groups(props=("C08",), prefix="c08"):
    """m68k assembly permutation (bit-sliced 32-bit layout; data and address registers), lifted by tools/lift_m68k.py."""
    sig = ["--fn=ascon_permute:void:ascon_state_t * state,uint8_t first_round"]
    return [Group(prefix + ".permute.m68k_asm", props, "harness/h_permute_asm.c", "h_permute_asm", [], cfg="C32",
                  enforce="ascon_permute", defs=["VERIF_ANY_FIRST_ROUND", 'VERIF_GHOST_HEADER="ghost_asm_m68k.h"'],
                  contracts=["contracts/c_permute_enforce.h"], lift=("src/core/ascon-asm-m68k.S", sig), timeout=1800,
                  functions=["ascon_permute (m68k assembly, lifted)"], expect_classes=["postcondition", "assigns", "assertion"],
                  note="cut points at the 13 round labels; link/unlk frame; rotate by register modulo 64")]


def avr_groups(props=("C08",), prefix="c08", rounds=range(0, 12)):
    """AVR5 assembly permutation (byte layout; one do-while loop over the rounds), lifted by tools/lift_avr.py: one group per
    start round 0..11 (the loop unwinds completely once first_round is fixed)."""
    sig = ["--fn=ascon_permute:void:ascon_state_t * state,uint8_t first_round", "--fn=ascon_backend_free:void:ascon_state_t * state"]
    return [Group("%s.permute.avr5_asm.first%d" % (prefix, k), props, "harness/h_permute_asm.c", "h_permute_asm", [], cfg="DX",
                  enforce="ascon_permute", defs=['VERIF_GHOST_HEADER="ghost_asm_avr.h"', "VERIF_FIRST=%d" % k], unwind=14,
                  contracts=["contracts/c_permute_enforce.h"], lift=("src/core/ascon-asm-avr5.S", sig), timeout=1800,
                  functions=["ascon_permute (AVR5 assembly, lifted)"], expect_classes=["postcondition", "assigns", "assertion"],
                  note="8-bit registers with carry and T flags; cut at the loop head; round loop unwound completely (unwinding assertion)")
            for k in rounds]


def byteop_groups(cfg, props=("C08",), alias=True):
    gs = []
    for f in BYTEOPS:
        variants = [("", [])]
        if alias and f in ("ascon_extract_and_add_bytes", "ascon_extract_and_overwrite_bytes"):
            variants.append((".alias", ["VERIF_ALIAS"]))
        for suffix, extra in variants:
            gs.append(Group("c08.%s.%s%s" % (f, cfg, suffix), props, "harness/h_call.c", "h_call",
                            [BACKEND_SRC[cfg]], cfg=cfg, enforce=f,
                            defs=["VERIF_ENFORCE_" + f, "VERIF_CALL_" + f] + extra,
                            contracts=["contracts/c_byteops.h"], unwind=42,
                            expect_classes=["postcondition", "assigns"], timeout=900))
    return gs


ENUM_FNS = ["ascon_overwrite_with_zeroes", "ascon_extract_bytes", "ascon_extract_and_add_bytes", "ascon_extract_and_overwrite_bytes"]


def byteop_enum_groups(cfg, tier, seed=0, props=("C08",), prefix="c08"):
    """byte operations with ENUMERATED constant (offset, size): every pair with offset + size <= 40 in the thorough tier, a
    seed-rotated sample in the quick tier.  Used for the 32-bit bit-sliced backend, where symbolic offsets through the bit
    de-interleaving exhaust the solver (extract family) or hit the CBMC union anomaly (overwrite_with_zeroes)."""
    pairs = [(o, z) for o in range(0, 41) for z in range(0, 41 - o)]
    if tier == "quick":
        pairs = [p for i, p in enumerate(pairs) if i % 29 == seed % 29]
    gs = []
    base = {g.name: g for g in byteop_groups(cfg, props=props)}
    for f in ENUM_FNS:
        for sfx in ("", ".alias"):
            b = base.get("c08.%s.%s%s" % (f, cfg, sfx))
            if b is None:
                continue
            for o, z in pairs:
                gs.append(Group("%s.%s.%s%s.o%d.s%d" % (prefix, f, cfg, sfx, o, z), list(props), b.harness, b.entry, list(b.srcs), cfg=cfg,
                                enforce=f, defs=list(b.defs) + ["VERIF_OFFSET=%du" % o, "VERIF_SIZE=%du" % z], contracts=list(b.contracts),
                                unwind=42, expect_classes=["postcondition", "assigns"], timeout=600, functions=[f]))
                gs[-1].reach = (o + z) % 7 == 0
    return gs


def groups(tier):
    import os
    seed = int(os.environ.get("VERIF_SEED", "0") or 0)
    gs = []
    gs += byteop_enum_groups("C32", tier, seed)
    gs += [g for g in byteop_groups("C32") if any(k in g.name for k in ("ascon_init", "ascon_copy"))]
    for cfg in (["C64", "C32"] if tier == "quick" else ["C64", "C32", "DX"]):
        gs += permute_groups(cfg)
    gs += asm_groups()
    gs += i386_groups()
    gs += riscv_groups()
    gs += arm64_groups()
    gs += arm32_groups()
    gs += xtensa_groups()
    gs += m68k_groups()
    gs += avr_groups(rounds=(0, 4, 6, 11) if tier == "quick" else range(0, 12))
    for cfg in (["C64"] if tier == "quick" else ["C64", "DX", "DEF"]):
        gs += byteop_groups(cfg)
    if tier == "thorough":
        # 32-bit bit-sliced backend, symbolic offset and size: the two operations CBMC 6.11 can decide that way
        gs += [g for g in byteop_groups("C32") if any(k in g.name for k in ("ascon_add_bytes", "ascon_overwrite_bytes"))]
    return gs
