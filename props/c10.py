"""C10 - masked code computes the unmasked function for every randomness and share count."""
from props import common

LEVEL = "proof"
EXPLANATION = (
    "Masked-word toolkit (64-bit C backend, ASCON_MASKED_MAX_SHARES 4 and 3): every operation for 2, 3 and 4 shares (zero, load, "
    "load_partial, load_32, store, store_partial, randomize, xor, replace, from_xM incl. in place, pad, separator) is "
    "loop-free and is proved, with the random source returning an ARBITRARY word on every call and arbitrary share "
    "patterns, to compute the specified function of the UNMASKED value (XOR of the un-rotated shares); shares above "
    "the active count are zero where promised; for randomize each obligation 'share k is unchanged for every random "
    "value' must be REFUTED. Masked keys: init then extract returns the key; randomize preserves the value and every "
    "share of every key word is refuted to be stale (this found defect D1, repaired). Masked state conversions: every "
    "copy_from_xM / copy_to_x1 / randomize preserves all five unmasked words, in place and out of place, whatever the "
    "unused shares of the source hold. Masked permutations ascon_x2/x3/x4_permute (64-bit C): proved equal to the "
    "reference permutation on the unmasked state for all states, share patterns, preserved randomness and start rounds "
    "by the lemma/use pair of C08 (round lemma for an arbitrary iteration; loop contract + enforced function contract)."
)
ASSUMPTIONS = [
    "x86-64 masked assembly (the default masked backend on this host) is NOT covered; the 32-bit C and direct-xor masked word backends are not covered",
    "masked AEAD entry points (ascon*_masked_aead_*) are not yet under contract: their agreement with the unmasked AEAD is not claimed here",
    "quick tier: x4 permutation round lemma (10 min solver time) is in the thorough tier only",
]


def groups(tier):
    gs = []
    gs += common.masked_word_groups("c10", ["C10"], max_shares=4)
    gs += common.masked_word_groups("c10", ["C10"], max_shares=3)
    gs += common.masked_key_groups("c10", ["C10"])
    gs += common.masked_state_groups("c10", ["C10"])
    gs += common.masked_permute_groups("c10", ["C10"], shares=(2, 3) if tier == "quick" else (2, 3, 4))
    if tier == "thorough":
        gs += common.masked_word_groups("c10", ["C10"], max_shares=2)
    return gs
