"""C10 - masked code computes the unmasked function for every randomness and share count."""
import os
from props import common

LEVEL = "proof"
EXPLANATION = (
    "Masked-word toolkit (64-bit C backend, ASCON_MASKED_MAX_SHARES 4 and 3): every operation for 2, 3 and 4 shares (zero, load, "
    "load_partial, load_32, store, store_partial, randomize, xor, replace, from_xM incl. in place, pad, separator) is "
    "loop-free and is proved, with the random source returning an ARBITRARY word on every call and arbitrary share "
    "patterns, to compute the specified function of the UNMASKED value (XOR of the un-rotated shares); shares above "
    "the active count are zero where promised; for randomize each obligation 'share k is unchanged for every random "
    "value' must be REFUTED. Masked keys: init then extract returns the key; randomize preserves the value and every "
    "share of every key word is refuted to be stale (this found defect D1, repaired). Masked state conversions: every "
    "copy_from_xM / copy_to_x1 / randomize preserves all five unmasked words, in place and out of place, whatever the "
    "unused shares of the source hold. Masked permutations ascon_x2/x3/x4_permute (64-bit C): proved equal to the "
    "reference permutation on the unmasked state for all states, share patterns, preserved randomness and start rounds "
    "by the lemma/use pair of C08 (round lemma for an arbitrary iteration; loop contract + enforced function contract). "
    "Masked one-shot AEAD (ascon128/128a/80pq_masked_aead_encrypt/decrypt, 64-bit C masked words, default 4 key / 2 data shares; 2/2, 3/3, 4/1, 4/4 in the thorough tier): the real entry point, masked absorb/encrypt/decrypt loops, word toolkit, state conversions and key masking are executed against Algorithm 1 over the abstract permutation with the masked permutations replaced by their C10 contract (any re-sharing) and an arbitrary random tape, at enumerated constant (adlen, mlen) around the block boundaries: ciphertext, tag, plaintext, 0/-1 and zeroed plaintext are those of the unmasked specification and the caller's masked key object is unchanged. "
    "The x86-64 ASSEMBLY masked permutations (what the default build runs) are lifted instruction by instruction on every run and "
    "proved round by round: one group per (share count, start round k) asserts, from an arbitrary sharing of an arbitrary state and "
    "arbitrary preserved randomness, that the unmasked state after round k equals ref_round, re-shares arbitrarily at every cut, "
    "takes the later rounds from their own groups, and asserts unmasked(state') == ref_permute(unmasked(state), k) at the exit. "
    "The assembly masked-word toolkit is lifted likewise and run through the same word/key/state/AEAD obligations as the C backend."
)
ASSUMPTIONS = [
    "x86-64 masked assembly: the three permutations ascon_x2/x3/x4_permute are verified through tools/lift_x86_64.py (ASCON_MASKED_MAX_SHARES == 4 layout in the quick tier, all three layouts in the thorough tier; instruction table, calling convention and 'first_round arrives zero-extended' trusted; quick tier: all rounds for x2, a seed-rotated third for x3, three for x4; thorough: all); the assembly masked WORD toolkit (ascon-word-asm-x86-64.S, 35 functions) is verified through the same lifter (additionally trusted: bswapq, movl/movzbl/movb forms, shrq %cl, call = C call with caller-saved registers havocked, a 32-bit 'unsigned size' argument arriving zero-extended) for the ASCON_MASKED_MAX_SHARES == 4 layout (quick) and the 3 and 2 layouts (thorough; a third of the rounds for the permutations); the 32-bit C masked word backend is covered in the thorough tier except its three x*_xor functions (CBMC union anomaly); the direct-xor masked word backend is not covered",
    "masked AEAD: plain-assertion groups (no DFCC frame; exactly sized buffers), constant lengths enumerated around the block boundaries (not every length); masked permutations inside them are specification stubs carrying the contract proved by the c10.permute groups",
    "quick tier: x4 permutation round lemma (10 min solver time) is in the thorough tier only",
]


def groups(tier):
    gs = []
    gs += common.masked_word_groups("c10", ["C10"], max_shares=4)
    gs += common.masked_word_groups("c10", ["C10"], max_shares=3)
    gs += common.masked_key_groups("c10", ["C10"])
    gs += common.masked_state_groups("c10", ["C10"])
    gs += common.masked_permute_groups("c10", ["C10"], shares=(2, 3) if tier == "quick" else (2, 3, 4))
    if tier == "thorough":
        gs += common.masked_word_groups("c10", ["C10"], max_shares=2)
    gs += common.masked_aead_groups("c10", ["C10"], tier)
    # default build on x86-64: assembly word toolkit (lifted), and the C key/state code on top of it
    gs += common.masked_word_groups("c10", ["C10"], cfg="DEF", max_shares=4)
    gs += common.masked_key_groups("c10", ["C10"], cfg="DEF")
    gs += common.masked_state_groups("c10", ["C10"], cfg="DEF")
    gs += common.masked_aead_groups("c10", ["C10"], tier, cfg="DEF")
    gs += common.masked_asm_permute_groups("c10", ["C10"], tier, seed=int(os.environ.get("VERIF_SEED", "0") or 0),
                                           layouts=(4,) if tier == "quick" else (4, 3, 2))
    if tier == "thorough":
        # 32-bit C masked-word backend; x*_xor excluded: it stores through S[] and every other member is read through W[],
        # which CBMC 6.11 mis-reports (union anomaly, DESIGN B.5) - a false alarm that is not raised
        gs += [g for g in common.masked_word_groups("c10", ["C10"], cfg="C32", max_shares=4) if "_xor." not in g.name]
    if tier == "thorough":      # the assembly word toolkit in the other word layouts (ASCON_MASKED_MAX_SHARES 3 and 2)
        gs += common.masked_word_groups("c10", ["C10"], cfg="DEF", max_shares=3)
        gs += common.masked_word_groups("c10", ["C10"], cfg="DEF", max_shares=2)
    return gs
