"""C14 - session nonces advance by exactly one per packet, big-endian, full carry."""
from driver import Group
from props import common

LEVEL = "proof"
EXPLANATION = (
    "ascon_aead_increment_nonce is enforced against the closed form +1 mod 2^128 on the big-endian 16-byte integer "
    "(low half +1, high half + carry) for all 2^128 nonces, hence every carry-chain length; ascon_aead_set_counter "
    "against 'bytes 0..7 zero, bytes 8..15 the counter big-endian'; frames: exactly the 16 nonce bytes. "
    "ascon128/128a/80pq_aead_start are enforced against: the permutation state is Algorithm 1's initialisation from "
    "the OLD stored nonce (with the permutation and the AD absorption abstract), posn == 0, and the stored nonce is "
    "old+1 (using the proved contract of increment_nonce in replaced form)."
)
ASSUMPTIONS = [
    "C++ cipher objects (do_encrypt/do_decrypt nonce handling, set_nonce padding/truncation) are NOT covered: CBMC's C++ front end cannot parse this repository's C++ (DESIGN 2.8)",
    "'packet i equals the one-shot result under N+i' follows from this together with C01's start/one-shot contracts; the induction over the number of packets is a meta-step",
]

SRC = ["src/aead/ascon-aead-util.c"]


def groups(tier):
    gs = []
    for f in ("ascon_aead_increment_nonce", "ascon_aead_set_counter"):
        gs.append(Group("c14." + f, ["C14"], "harness/h_call.c", "h_call", SRC, cfg="C64", enforce=f,
                        defs=["VERIF_CALL_" + f], contracts=["contracts/c_nonce.h"], unwind=18,
                        expect_classes=["postcondition", "assigns"], replay=common.aead_replay("C64")))
    # the stored nonce advances by exactly one per started packet, and the packet is keyed by the OLD nonce
    gs += common.aead_inc_groups("c14", ["C14"], ("init", "reinit", "start", "encrypt_finalize", "decrypt_finalize"))
    return gs
