"""C03 - hashing and XOF functions compute their specified digests for every input."""
import os
from props import common

LEVEL = "proof"
EXPLANATION = (
    "L1: ascon_xof_absorb/squeeze and ascon_xofa_absorb/squeeze are enforced against the byte-serial sponge automaton "
    "of spec/spec_xof.h (10* padding, p^12 / p^8 placement, lazy vs eager permutation, the (count, mode) state machine) "
    "from an ARBITRARY permutation state for every entry count, both modes and every length below two rate blocks "
    "(one constant (count, mode, length) triple per obligation group). L2 concrete: the pre-computed initial values of "
    "ascon_xof_init, ascon_xofa_init, ascon_hash_init, ascon_hasha_init and of the declared lengths 0 / 32 / >= 2^29 of "
    "init_fixed equal ref_permute applied to the specification's IV block (k=0, r=64, a=12, a-b, output bits). "
    "L2 abstract (permutation uninterpreted, L1 functions replaced by summary contracts): init_fixed for every other "
    "declared length, absorb_custom (customisation string, padding, permutation, separator), init_custom for every "
    "function name of 0..40 characters (<= 32: zero padded into the IV block; longer: replaced by its ASCON-HASH(A) "
    "digest) and every customisation string and declared length, and the one-shot functions ascon_hash/hasha/xof/xofa "
    "(init; one absorb call on (in, inlen); 32-byte squeeze), for every input length below 2^40."
)
ASSUMPTIONS = [
    "meta-step: generalisation of the L1 step proofs from lengths below two rate blocks to every length (the loops that write output cannot carry CBMC loop contracts, DESIGN 2.9; the absorb loops are also covered by this route only)",
    "function names longer than 40 characters are outside the bound of the init_custom groups (the strlen model is unwound)",
    "summary faces of the L1 contracts: determinism only (DESIGN 3.2); x86-64 assembly permutation: satisfies the C08 contract through the instruction lifter (see C08)",
]


def groups(tier):
    seed = int(os.environ.get("VERIF_SEED", "0") or 0)
    gs = []
    for fam in ("xof", "xofa"):
        gs += common.sponge_l1_groups("c03", ["C03"], fam, ("absorb", "squeeze"), tier, seed=seed)
    gs += [g for g in common.xof_l2_groups("c03", ["C03"]) if "_copy" not in g.name and "_free" not in g.name]
    return common.with_replay(gs, common.hash_replay())
