"""C04 - PRF, MAC, HMAC and KMAC compute their specified functions; verify is exact."""
import os
from props import common

LEVEL = "proof"
EXPLANATION = (
    "ASCON-PRF family (src/mac/ascon-prf.c): L1 ascon_prf_absorb/squeeze enforced against the byte-serial automaton "
    "(rate 32 in / 16 out, padding + separator on the first squeeze) from an arbitrary state for every entry count, mode "
    "and length below two rate blocks; L2 ascon_prf_fixed_init/ascon_prf_init (IV 80 80 8c 00 || output bits, key, p^12), "
    "ascon_prf, ascon_prf_fixed, ascon_mac (tag = first 16 squeezed bytes), ascon_mac_verify (result is the exact "
    "16-byte comparison with the recomputed tag: the replaced contract of ascon_aead_check_tag requires size == 16) and "
    "ascon_prf_short (error and empty frame above 16 bytes, else p^12(IV||K||M) tail xor K) for every key/message/length "
    "with the permutation abstract. HMAC/HMACA against RFC 2104 (64-byte block; keys shorter than, equal to and longer "
    "than the block): the postcondition 'out == H((K'^opad) || H((K'^ipad) || text))' is asserted for the real "
    "ascon_hmac(a), _init, _reinit, _finalize with the hash functions replaced by specification stubs (the L1 "
    "contract in executable form: contents for buffers up to 64 bytes, identity summary for longer caller data), one "
    "constant key length per obligation group."
)
ASSUMPTIONS = [
    "KMAC/KMACA: checked as 'customised XOF named KMAC applied to the key then the message' (plain-assertion groups over specification stubs); the pre-computed initial block used for the default length 32 is a concrete obligation (table == p^12 of the specified IV block, per state encoding), and in the length-32 composition groups the abstract permutation is instantiated at that one IV block with the reference permutation (assumption justified by C08)",
    "HMAC groups are plain-assertion groups: the contract postcondition is asserted by the harness instead of being enforced through DFCC (its write-set instrumentation of these long compositions yields >10^7 clauses); the frame comes from exactly-sized buffers",
    "HMAC key lengths are enumerated (quick: 0,1,31,32,33,63,64,65,100; thorough: 0..66,100,1000), messages are 'any length above 64' (identity summary) or the constants 0 and 5",
    "specification stubs for ascon_xof(a)_absorb/squeeze, ascon_hash(a)_init/reinit and ascon_permute stand for the contracts enforced under C03/C07/C08",
    "meta-step: length generalisation of the PRF L1 step proofs",
]


def groups(tier):
    seed = int(os.environ.get("VERIF_SEED", "0") or 0)
    gs = []
    gs += common.sponge_l1_groups("c04", ["C04"], "prf", ("absorb", "squeeze"), tier, seed=seed)
    gs += common.prf_l2_groups("c04", ["C04"])
    hm = common.hmac_l2_groups("c04", ["C04"], tier=tier)
    if tier != "thorough":
        keep = ("key0.", "key33.", "key64.", "key65.", "key100.")
        hm = [g for g in hm if any(k in g.name + "." for k in keep) and ".in0" not in g.name]
        # the one-shot functions add four lines to init + update + finalize: two key lengths suffice in the quick tier
        hm = [g for g in hm if not (g.functions[0] in ("ascon_hmac", "ascon_hmaca") and not (".key0.in5" in g.name or ".key65.long" in g.name))]
    gs += hm
    gs += common.cxof_kdf_groups("c04", ["C04"], ["kmac"], tier=tier)
    gs += common.kmac_table_groups("c04", ["C04"], cfgs=("C64",) if tier == "quick" else ("C64", "C32", "DX"))
    return gs
