"""C15 - PRNG is deterministic in its entropy, forward secure, reseeds and reports status."""
from props import common

LEVEL = "proof"
EXPLANATION = (
    "The real ascon_random_init / fetch / feed / reseed / save_seed / load_seed and ascon_random are run symbolically from "
    "an ARBITRARY generator state (any sponge state, counter, every sampled block position/mode) with a stubbed system "
    "source (arbitrary bytes, arbitrary health status, call counter), stubbed storage callbacks (arbitrary result) and "
    "specification stubs for the XOF functions and the permutation. Asserted: (1) after init, fetch, feed, reseed and "
    "load_seed the last operations on the sponge are (at least) four '(8-byte rate is all-zero; permute 12 rounds)' "
    "steps (ghost run counter in the permutation stub) - the state cannot be run backwards; (2) fetch calls the system "
    "source before squeezing iff 16384 bytes were produced since the last reseed, and the counter arithmetic; "
    "(3) every status result as documented (init/reseed/ascon_random: non-zero iff the source is healthy; "
    "save_seed/load_seed: 0 / -1 - this found defect D2, repaired); (4) init equals rekey(absorb(cXOF 'SpongePRNG', "
    "seed)) and feed equals rekey(align(absorb(state, data))): the state is a deterministic function of the system bytes "
    "and the fed bytes, each of which is an argument of it."
)
ASSUMPTIONS = [
    "plain-assertion groups over specification stubs (XOF absorb/squeeze = the L1 contract in executable form; permutation abstract)",
    "the real system source (getrandom / /dev/urandom, ascon-trng-dev-random.c, ascon-trng-mixer.c) is replaced by the stub and not verified",
    "'every absorbed byte influences all later output' is shown in the only sense a contract can give it: the byte is an argument of the state term; diffusion is a property of the permutation",
    "entry block positions are sampled in the quick tier (count/mode in {(0,0),(5,0),(0,1),(3,1)}), enumerated in the thorough tier",
]


def groups(tier):
    return common.prng_groups("c15", ["C15"], tier=tier)
