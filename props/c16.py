"""C16 - the library is re-entrant: no hidden mutable global state; frames name only argument-reachable objects."""
import glob
import json
import os
import subprocess
import time

import driver
from props import common

LEVEL = "other"
EXPLANATION = (
    "(a) Every enforced contract of C01-C15 carries an assigns clause that names only objects reachable from the "
    "arguments (or ghost logs of the harness); DFCC fails any store to a file-scope object. A sample of those groups "
    "(public one-shot and incremental entry points) is re-run here. (b) DFCC tolerates function-local statics, so the "
    "goto symbol table of every library translation unit (each C backend configuration) is scanned: the set of "
    "static-lifetime, non-const objects defined under /repo/src must be empty. (c) Shared read-only objects (const "
    "ISAP key, masked key, inputs) are outside every frame: const parameters absent from the assigns clauses. From "
    "(a)-(c): calls on distinct objects have disjoint write sets and read nothing another call writes, so every "
    "interleaving is equivalent to a sequential order. That last inference is an argument, not something CBMC "
    "executes (it has no thread semantics for this): hence level 'other'."
)
ASSUMPTIONS = [
    "CBMC has no concurrency semantics for this library: data-race freedom is inferred from disjoint frames + absence of mutable statics",
    "the system TRNG back ends other than ascon-trng-dev-random.c / ascon-trng-mixer.c are not compiled on this host and are not scanned",
    "assembly backends and C++ are not scanned",
]

SKIP = ("ascon-trng-none.c", "ascon-trng-windows.c", "ascon-trng-zephyr.c", "ascon-trng-stm32.c", "ascon-trng-esp.c",
        "ascon-trng-due.c", "ascon-version.c")


def is_const(t):
    if not isinstance(t, dict):
        return False
    ns = t.get("namedSub", {})
    if "#constant" in ns:
        return True
    if t.get("id") == "array" and t.get("sub"):
        return is_const(t["sub"][0])
    return False


def scan(cfg):
    """returns (n_files, n_symbols_seen, [mutable static symbols])"""
    files = sorted(f for f in glob.glob(os.path.join(driver.REPO, "src", "*", "*.c")) if os.path.basename(f) not in SKIP)
    bad, seen = [], 0
    out = os.path.join(driver.BUILD, "c16.scan." + cfg)
    os.makedirs(out, exist_ok=True)
    for f in files:
        o = os.path.join(out, os.path.basename(f) + ".o")
        cmd = ["goto-cc"] + driver.CONFIGS[cfg] + ["-DHAVE_EXPLICIT_BZERO", "-DHAVE_GETRANDOM", "-DHAVE_SYS_RANDOM_H", "-DHAVE_UNISTD_H",
                                                    "-DHAVE_FCNTL_H", "-DHAVE_OPEN", "-I" + os.path.join(driver.REPO, "src"), "-c", f, "-o", o]
        p = subprocess.run(cmd, stdout=subprocess.PIPE, stderr=subprocess.PIPE)
        if p.returncode != 0:
            raise RuntimeError("goto-cc failed on %s: %s" % (f, p.stderr.decode()[-400:]))
        p = subprocess.run(["goto-instrument", "--show-symbol-table", "--json-ui", o], stdout=subprocess.PIPE, stderr=subprocess.PIPE)
        js = json.loads(p.stdout.decode())
        for it in js:
            if not isinstance(it, dict) or "symbolTable" not in it:
                continue
            for name, s in it["symbolTable"].items():
                if name.startswith("__CPROVER") or not s.get("isStaticLifetime") or s.get("isType"):
                    continue
                t = s.get("type", {})
                if t.get("id") == "code":
                    continue
                loc = json.dumps(s.get("location", {}))
                if "/src/" not in loc:
                    continue
                seen += 1
                if s.get("isExtern") and "value" not in s:
                    pass
                if not is_const(t):
                    bad.append("%s (%s)" % (name, os.path.basename(f)))
        os.remove(o)
    return len(files), seen, sorted(set(bad))


def groups(tier):
    gs = []
    gs += [g for g in common.aead_l2_groups("c16", ["C16"], "encrypt", alias_variants=()) if "ascon128_" in g.name]
    gs += [g for g in common.aead_inc_groups("c16", ["C16"], ("start", "encrypt_block"), alias=False) if "ascon128_" in g.name]
    gs += [g for g in common.prf_l2_groups("c16", ["C16"]) if "prf_short" in g.name or "ascon_mac." in g.name]
    gs += [g for g in common.xof_l2_groups("c16", ["C16"]) if "ascon_hash.C64" in g.name + ".C64" or "init_custom" in g.name][:3]
    # the masked ciphers take a const masked key that callers may share between threads: it must stay bit-for-bit unchanged
    gs += [g for g in common.masked_aead_groups("c16", ["C16"], "quick") if ".ad0.m0" not in g.name]
    return gs


def custom(tier, results):
    """extra (non-CBMC-group) part of the check: returns (violations, coverage_extra, assumptions_extra)"""
    viol = []
    cov = {"symbol_table_scan": []}
    for cfg in (["C64", "DEF"] if tier == "quick" else ["C64", "C32", "DX", "GEN", "DEF"]):
        n, seen, bad = scan(cfg)
        cov["symbol_table_scan"].append({"config": cfg, "translation_units": n, "static_lifetime_objects_seen": seen,
                                          "mutable_static_objects": bad})
        for b in bad:
            viol.append({"what": "mutable static-lifetime object %s in configuration %s" % (b, cfg), "group": "c16.scan." + cfg})
    return viol, cov
