"""C02 - AEAD decryption inverts encryption, rejects every forgery, wipes plaintext."""
import os
from driver import Group
from props import common

LEVEL = "proof"
EXPLANATION = (
    "ascon_aead_check_tag is enforced against its exact contract (0 iff all 16 byte pairs equal, else -1 and no other "
    "value; complete for all 2^256 tag pairs); its plaintext wipe (all bytes zero on mismatch, untouched on match, "
    "nothing else written) is checked for bounded lengths. ascon_aead_decrypt_8/16 by step proof against the "
    "byte-serial duplex-decrypt specification from an arbitrary state, every entry position, every length < 2*rate, "
    "also with dest == src. L2: ascon128/128a/80pq_aead_decrypt for every input and every length < 2^40: clen < 16 "
    "returns -1 with an empty frame; otherwise *mlen == clen-16, the plaintext is the output of exactly one "
    "duplex-decrypt call on c from the specified state, and the result is the exact comparison of the supplied tag "
    "with the specified tag of (k, n, ad, c) applied to the whole plaintext buffer. Inverse-step lemma: "
    "decrypt_byte(encrypt_byte(m)) == m with equal successor states, hence decrypt(encrypt(m)) == m and acceptance."
)
ASSUMPTIONS = [
    "'every change is rejected' holds up to a 128-bit tag collision: what is proved is 'accept iff supplied tag == specified tag of the supplied inputs, else -1 and zeroed plaintext'",
    "plaintext wipe loop of ascon_aead_check_tag: bounded (writes through a moving pointer)",
    "meta-step: generalisation of the decrypt step proofs to every length",
    "SIV and ISAP decryption: see C06; masked one-shot decrypt: constant lengths around the block boundaries (see C10); C++: not covered",
]


def groups(tier):
    seed = int(os.environ.get("VERIF_SEED", "0") or 0)
    gs = []
    gs += common.check_tag_groups("c02", ["C02"], tier)
    gs += common.crypt_groups("c02", ["C02"], "decrypt", tier, seed=seed)
    gs += common.aead_l2_groups("c02", ["C02"], "decrypt")
    gs += common.aead_inc_groups("c02", ["C02"], ("start", "decrypt_block", "decrypt_finalize"))
    gs.append(Group("c02.lemma.inverse_step", ["C02"], "harness/h_lemma_inverse.c", "h_lemma_inverse", [], cfg="C64",
                    defs=["VERIF_ABSTRACT_P"], unwind=2, expect_classes=["assertion"]))
    gs += common.masked_aead_groups("c02", ["C02"], tier, ops=("decrypt",))
    return gs
