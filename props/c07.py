"""C07 - incremental APIs are invariant under chunking, aliasing, copying and re-init."""
import os
from props import common

LEVEL = "proof"
EXPLANATION = (
    "Chunk invariance is what the L1 contracts state: every incremental data function (XOF/XOFA/PRF absorb and squeeze, "
    "AEAD encrypt/decrypt blocks) is enforced, from an ARBITRARY state and for every entry position/count/mode, against "
    "'the byte-serial automaton applied to exactly these bytes, returning the exit position' - and the automaton "
    "composes (A^(a+b) = A^b o A^a), zero-length calls included (length 0 is one of the enumerated lengths, also with a "
    "null buffer). In-place operation: every encrypt/decrypt L1 and incremental-block group exists in a dest == src "
    "variant. Copy: ascon_xof(a)_copy / ascon_hash(a)_copy are enforced against 'equal (canon, count, mode)'. Re-init: "
    "*_reinit* on a used object is enforced against the same expectation as *_init* on a fresh one (hash, XOF, "
    "fixed-length, customised; incremental AEAD reinit)."
)
ASSUMPTIONS = [
    "meta-step: induction over the number of calls (composition of the per-call contracts)",
    "HMAC/HKDF/KMAC/KDF incremental wrappers: see C04/C05 (thin compositions over these functions)",
]


def groups(tier):
    seed = int(os.environ.get("VERIF_SEED", "0") or 0)
    gs = []
    for fam in ("xof", "xofa", "prf"):
        gs += common.sponge_l1_groups("c07", ["C07"], fam, ("absorb", "squeeze"), tier, seed=seed + 1)
    common.with_replay(gs, common.hash_replay())
    l2 = [g for g in common.xof_l2_groups("c07", ["C07"]) if "_copy" in g.name or "reinit" in g.name]
    gs += common.with_replay(l2, common.hash_replay())
    gs += common.aead_inc_groups("c07", ["C07"], ("reinit", "encrypt_block", "decrypt_block"))
    cg = common.crypt_groups("c07", ["C07"], "encrypt", "quick", seed=seed + 2) + \
        common.crypt_groups("c07", ["C07"], "decrypt", "quick", seed=seed + 2)
    if tier != "thorough":      # quick: the empty and one-byte chunks at every sampled entry position
        cg = [g for g in cg if g.name.endswith(".len0") or g.name.endswith(".len1")]
    gs += cg
    return gs
