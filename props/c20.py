"""C20 - hex codec round-trips and rejects bad input (C part)."""
from driver import Group

LEVEL = "proof"
EXPLANATION = (
    "UNBOUNDED: both functions write out[posn++] in index form, which CBMC loop contracts can abstract: "
    "ascon_bytes_to_hex is enforced for every input length against its closed form (too small a buffer: -1 and at most "
    "out[0] written; else 2*inlen, two digits per byte in the requested case, NUL terminated; the two digit tables are "
    "restated and thereby verified in the invariant); ascon_bytes_from_hex is enforced for every input length against a "
    "shadow automaton (the specification of the decoder, advanced by ghost code on each character): accepted classes "
    "exactly 0-9a-fA-F and six white-space characters, -1 for any other character / odd digit count / no space, every "
    "decoded byte, writes only inside out[0..outlen). BOUNDED cross-check (labelled): "
    "ascon_bytes_from_hex and ascon_bytes_to_hex (src/core/ascon-hex.c) are checked against an independent reference "
    "decoder/encoder written from the property statement (accepted classes exactly 0-9a-fA-F and the six white-space "
    "characters; -1 for any other character, an odd digit count or insufficient space; 2 digits per byte, NUL "
    "terminated, -1 and at most out[0] written when the buffer is too small), with ALL characters/bytes and the output "
    "capacity symbolic and exactly-sized buffers, for every input length up to the bound (one constant length per "
    "obligation group), plus the round trip decode(encode(x)) == x."
)
ASSUMPTIONS = [
    "the reference-decoder/encoder groups and the round-trip groups are bounded in the input LENGTH (all contents symbolic) and are labelled bounded; the round trip decode(encode(x)) == x for every length follows from the two unbounded contracts by a meta-step (digits of byte i decode to byte i)",
    "lengths up to INT_MAX/2 (the functions return int)",
    "the C++ helpers bytes_from_hex/bytes_to_hex and the ASCON_NO_STL byte_array class cannot be parsed by CBMC's C++ front end and are not covered",
]
SRC = ["src/core/ascon-hex.c"]


def groups(tier):
    gs = []
    # unbounded: loop contracts (index-form writes) + enforced function contracts
    gs.append(Group("c20.ascon_bytes_to_hex.contract", ["C20"], "harness/h_hex_lc.c", "h_hex_lc", SRC, enforce="ascon_bytes_to_hex",
                    defs=["VERIF_LC_hex_to"], contracts=["contracts/c_hex.h"], loop_contracts=True,
                    unwind_pre=["ascon_bytes_from_hex.0:2"], timeout=900,
                    expect_classes=["loop_invariant_step", "loop_invariant_base", "postcondition", "assigns"]))
    gs.append(Group("c20.ascon_bytes_from_hex.contract", ["C20"], "harness/h_hex_lc.c", "h_hex_lc", SRC, enforce="ascon_bytes_from_hex",
                    defs=["VERIF_LC_hex_from"], contracts=["contracts/c_hex.h"], loop_contracts=True, drop_unused=True, timeout=900,
                    expect_classes=["loop_invariant_step", "loop_invariant_base", "postcondition", "assigns"]))
    nmax_from = 6 if tier == "quick" else 9
    nmax_to = 4 if tier == "quick" else 8
    for n in range(0, nmax_from + 1):
        gs.append(Group("c20.from_hex.len%d" % n, ["C20"], "harness/h_hex.c", "h_hex", SRC, defs=["OP_from_hex", "VERIF_N=%d" % n],
                        unwind=24, kind="bounded", bound="input length == %d characters (contents and capacity symbolic)" % n,
                        functions=["ascon_bytes_from_hex"], expect_classes=["assertion"], timeout=1200))
    for n in range(0, nmax_to + 1):
        gs.append(Group("c20.to_hex.len%d" % n, ["C20"], "harness/h_hex.c", "h_hex", SRC, defs=["OP_to_hex", "VERIF_N=%d" % n],
                        unwind=24, kind="bounded", bound="input length == %d bytes (contents and capacity symbolic)" % n,
                        functions=["ascon_bytes_to_hex"], expect_classes=["assertion"], timeout=1200))
        gs.append(Group("c20.roundtrip.len%d" % n, ["C20"], "harness/h_hex.c", "h_hex", SRC, defs=["OP_roundtrip", "VERIF_N=%d" % n],
                        unwind=24, kind="bounded", bound="input length == %d bytes" % n,
                        functions=["ascon_bytes_to_hex", "ascon_bytes_from_hex"], expect_classes=["assertion"], timeout=1200))
    return gs
