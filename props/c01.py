"""C01 - AEAD encryption computes the ASCON v1.2 function for every input."""
import os
from driver import Group
from props import common

LEVEL = "proof"
EXPLANATION = (
    "Three layers of enforced contracts on the real C code. L0 (C08): ascon_permute == reference permutation. "
    "L1: ascon_aead_absorb_8/16 by loop contract for every length up to 2^40 (per-iteration assertion: one iteration == "
    "rate-many byte steps of the duplex specification; tail == partial block + 10* padding + optional permutation; "
    "structural invariant: iteration k consumes bytes [k*rate,(k+1)*rate)); ascon_aead_encrypt_8/16 by step proof: "
    "enforced contract 'state, every output byte and returned position equal the byte-serial duplex specification' "
    "from an ARBITRARY state for every entry position and every length below 2*rate (one constant (position,length) "
    "pair per obligation group; these loops write through moving pointers, which CBMC loop contracts cannot abstract, "
    "DESIGN 2.9). L2: ascon128/128a/80pq_aead_encrypt enforced against Algorithm 1 for every key, nonce, AD, message "
    "and every length < 2^40, with the permutation abstract (uninterpreted) and the L1 functions replaced by their "
    "summary contracts: reported length mlen+16, the ciphertext body is the output of exactly one duplex-encrypt call "
    "on (m, mlen) from the specified state (IV||K||N, p^a, key xor, padded AD, separator), the 16 bytes after it are "
    "the specified tag (padding at mlen mod rate, key xor at the rate offset, p^a, xor with the last 128 key bits); "
    "frame: c[0..mlen+16) and *clen. Incremental entry points: start/encrypt_block/finalize contracts (see groups)."
)
ASSUMPTIONS = [
    "meta-step (not executed by CBMC): generalisation of the write-loop step proofs from len < 2*rate to every length (Hoare while rule); backed by the bounded plumbing groups of the thorough tier",
    "summary faces of the L1 contracts assert only determinism (state' is a function of entry state, buffer identity, length, rounds, position); the composition theorem instantiates them with the L1-proved byte-serial specification (DESIGN 3.2)",
    "masked one-shot entry points: constant lengths around the block boundaries only, masked permutation = its C10 contract (see C10); C++ entry points are NOT covered (CBMC's C++ front end cannot parse this repository's C++)",
    "x86-64 assembly permutation: satisfies the C08 contract through the instruction lifter (see C08)",
]


def groups(tier):
    seed = int(os.environ.get("VERIF_SEED", "0") or 0)
    gs = []
    gs += common.absorb_groups("c01", ["C01"])
    gs += common.crypt_groups("c01", ["C01"], "encrypt", tier, seed=seed)
    gs += common.aead_l2_groups("c01", ["C01"], "encrypt")
    gs += common.aead_inc_groups("c01", ["C01"], ("init", "reinit", "start", "encrypt_block", "encrypt_finalize"))
    gs += common.masked_aead_groups("c01", ["C01"], tier, ops=("encrypt",))
    return gs
