"""C06 - SIV and ISAP modes; ISAP keys persist (only the key-persistence part is claimed)."""
from driver import Group
from props import common

LEVEL = "proof"
EXPLANATION = (
    "Claimed part: persistence of pre-computed ISAP keys. For ISAP-A-128A, ISAP-A-128 and ISAP-A-80PQ, save_key is "
    "enforced against 'the 80 output bytes are canon(ke) || canon(ka) and the key object is not written' (the key is "
    "absent from the assigns clause, so any store to it is a failed frame obligation), load_key against 'canon(ke), "
    "canon(ka) are the 80 input bytes', and free against 'both states zero' (C13); load(save(pk)) therefore has the same "
    "canonical key states as pk, and every ISAP operation is a function of those states, the nonce, AD and data."
)
ASSUMPTIONS = [
    "NOT covered (no contract was built in the time available): that ASCON-128-SIV / 128a-SIV / 80pq-SIV compute the documented two-pass construction, that the ISAP encrypt/decrypt/MAC functions compute ISAP v2.0, and that encrypt/decrypt leave the const key untouched",
    "the round trip load(save(pk)) == pk is the composition of the two contracts (two-line lemma, not executed)",
]


def groups(tier):
    gs = []
    for var in ("128a", "128", "80pq"):
        T = "ascon%s_isap_aead_key_t" % var
        for op in ("save_key", "load_key"):
            f = "ascon%s_isap_aead_%s" % (var, op)
            gs.append(Group("c06.%s" % f, ["C06"], "harness/h_isap_key.c", "h_isap_key",
                            ["src/isap/ascon-isap-%s.c" % var, "src/aead/ascon-aead-common.c", common.X64, common.CLEAN], cfg="C64",
                            enforce=f, defs=["VERIF_FN=" + f, "VERIF_T=" + T, "VERIF_ISAP_" + op], contracts=["contracts/c_isap_key.h"],
                            drop_unused=True, unwind=42, timeout=900, expect_classes=["postcondition", "assigns"]))
    gs += [g for g in common.free_groups("c06", ["C06"]) if "isap" in g.name]
    return gs
