"""C06 - SIV and ISAP modes compute their documented constructions; ISAP keys persist."""
from driver import Group
from props import common

LEVEL = "proof"
EXPLANATION = (
    "SIV: ascon128/128a/80pq_siv_encrypt and _decrypt (real entry points and static helpers, real absorb loops and state "
    "byte operations) are executed against the two-pass construction of doc/siv.dox (spec/spec_siv.h: authentication pass "
    "with IV 0x81/0xa1 over padded AD and padded plaintext, tag = nonce of the keystream pass with IV 0x82/0xa2, p^b before "
    "every keystream block, last block truncated) over the abstract permutation, for every key, nonce, AD and message content "
    "at enumerated constant lengths around the block boundaries: tag, ciphertext, plaintext, 0/-1 and zeroed plaintext as "
    "specified. ISAP: ascon128a/128/80pq_isap_aead_init followed by _encrypt/_decrypt against ISAP v2.0 (spec/spec_isap.h: "
    "IVs, bit-serial re-keying ISAP_RK with p^sB per bit and p^sK for the last, ISAP_ENC keystream from K_E* || N, ISAP_MAC "
    "over N || IV_A, padded AD, domain bit, padded C, re-keyed with Y = first k bits; 80PQ: the same with 160-bit K and Y) "
    "for ANY permutation (logged oracle: the k-th call of the code must have the argument of the k-th call of the reference), "
    "same enumeration of lengths; the pre-computed key object is bit-for-bit unchanged by encrypt and decrypt. Key "
    "persistence: save_key is enforced against 'the 80 output bytes are canon(ke) || canon(ka) and the key object is not "
    "written', load_key against 'canon(ke), canon(ka) are the 80 input bytes', free against 'both states zero' (C13); "
    "load(save(pk)) therefore has the same canonical key states as pk, and every ISAP operation is a function of those "
    "states, the nonce, AD and data."
)
ASSUMPTIONS = [
    "SIV/ISAP: plain-assertion groups at enumerated constant lengths (block boundaries), not every length; the keystream/absorb loops' generalisation to every length is by the uniform loop structure (meta-step); in particular a length parameter narrower than size_t in a static helper (inputs of 4 GiB and more) is NOT detected: CBMC's --conversion-check also flags every explicit byte cast of this code base and objects of symbolic size exhaust the solver",
    "where the prose of doc/siv.dox lists 'XOR, then permute' for the keystream pass, its diagram applies p^b before the first block; the diagram is taken as the documented construction (the code agrees with the diagram)",
    "spec/spec_isap.h is a transcription of ISAP v2.0 from the specification's algorithms; it is cross-checked only through the code it is compared with (which passes the official KAT vectors in the test suite)",
    "the round trip load(save(pk)) == pk is the composition of the two contracts (two-line lemma, not executed)",
    "permutation: abstract (SIV) / logged oracle (ISAP): results hold for whatever ascon_permute computes, in particular ref_permute (C08)",
]


def groups(tier):
    gs = []
    for var in ("128a", "128", "80pq"):
        T = "ascon%s_isap_aead_key_t" % var
        for op in ("save_key", "load_key"):
            f = "ascon%s_isap_aead_%s" % (var, op)
            gs.append(Group("c06.%s" % f, ["C06"], "harness/h_isap_key.c", "h_isap_key",
                            ["src/isap/ascon-isap-%s.c" % var, "src/aead/ascon-aead-common.c", common.X64, common.CLEAN], cfg="C64",
                            enforce=f, defs=["VERIF_FN=" + f, "VERIF_T=" + T, "VERIF_ISAP_" + op], contracts=["contracts/c_isap_key.h"],
                            drop_unused=True, unwind=42, timeout=900, expect_classes=["postcondition", "assigns"]))
    gs += [g for g in common.free_groups("c06", ["C06"]) if "isap" in g.name]
    gs += common.siv_groups("c06", ["C06"], tier)
    gs += common.isap_groups("c06", ["C06"], tier)
    return gs

