"""C05 - key derivation functions follow RFC 5869 / RFC 8018 / cXOF definitions."""
from props import common

LEVEL = "proof"
EXPLANATION = (
    "HKDF/HKDFA (src/kdf/ascon-hkdf-common.h) against RFC 5869 over an abstract model of HMAC (uninterpreted keyed "
    "transcript function; that the real HMAC is RFC 2104 is C04): extract (PRK = HMAC(salt, IKM), ready for T(1), the HMAC "
    "object freed); expand from an ARBITRARY expansion state (any PRK, buffered block, counter including the wrapped value "
    "0) for every sampled buffer position and request length: buffered bytes first, then T(n) = HMAC(PRK, T(n-1)|info|n), "
    "and once the 8-bit counter has wrapped -1 with every remaining byte zero; the one-shot function refuses more than "
    "255 blocks (8161, 8192, 2^40 bytes) with -1 and writes nothing, and otherwise starts with T(1). ASCON-KDF/KDFA, "
    "ASCON-KMAC/KMACA and ASCON-PBKDF2 against their definitions over the customised XOF (names 'KDF', 'KMAC', 'PBKDF2'; "
    "PBKDF2: RFC 8018 section 5.2 with block index big-endian from 1, T = U1 xor .. xor Uc, count 0 treated as 1, last "
    "block truncated, for counts 0..3 and output lengths around the 32-byte block) with XOF absorb/squeeze and the "
    "permutation as specification stubs and everything else the real code. ascon_pbkdf2_hmac: the same RFC 8018 iteration "
    "over the abstract HMAC model (U_1 = HMAC(P, S || INT(i)), U_j = HMAC(P, U_{j-1})), counts 0..3, HMAC object freed per block."
)
ASSUMPTIONS = [
    "plain-assertion groups (postconditions asserted by the harness) over specification stubs / an abstract HMAC model; request lengths, positions, counts and short buffer lengths are enumerated constants, long caller buffers are 'any length above 64'",
    "HKDF: the reference presents T(n-1), info and the counter octet to HMAC as three update pieces, as RFC 5869 writes them; a refactoring that re-chunks these updates would need the reference re-chunked (the abstract HMAC model is chunking-sensitive)",
    "PBKDF2 password (absorbed inside ascon-xof.c by the real absorb loop) has a small constant length in these groups; ascon_pbkdf2_hmac: over the abstract HMAC model (password 5 bytes, salt 7 bytes, counts 0..3)",
    "PBKDF2 iteration counts above 3 and HKDF requests above 100 bytes are outside the enumerated bounds (the structure per block/iteration is what is checked)",
]


def groups(tier):
    gs = []
    gs += common.hkdf_groups("c05", ["C05"], tier=tier)
    gs += common.cxof_kdf_groups("c05", ["C05"], ["kdf", "kmac", "pbkdf2"], tier=tier)
    gs += common.pbkdf2_hmac_groups("c05", ["C05"], tier)
    return gs
