"""C18 - assembly backends match their generators, the specification and the ABI (x86-64 part by contract; rest static facts)."""
import os
import re
import shutil
import subprocess
import tempfile
from props import common, c08

LEVEL = "other"
EXPLANATION = (
    "What a program verifier can decide of this property it decides for the five x86-64 files (the ones every default build "
    "and the whole test suite on this host run) the i386 permutation, the three RISC-V permutations and the AArch64, ARMv6, ARMv7-M, ARMv6-M, Xtensa, m68k and AVR5 permutations - 16 of the 18 generated files: ascon-asm-x86-64.S, "
    "ascon-x2/x3/x4-asm-x86-64.S and ascon-word-asm-x86-64.S are lifted to C instruction by instruction on every run "
    "(tools/lift_x86_64.py) and (1) ascon_permute is enforced against the reference permutation for all 2^320 states and "
    "all 256 start rounds with its frame (only *state); (2) the masked permutations are proved round by round on the "
    "unmasked state from arbitrary sharings; (3) the 35 masked-word functions meet the same obligations as the C toolkit; (3b) the i386 ascon_permute (lifted by tools/lift_i386.py, %esp tracked statically) is enforced against the reference permutation in the bit-sliced layout, and so are the RV64I, RV32I and RV32E permutations (tools/lift_riscv.py) and the AArch64 (tools/lift_arm64.py), ARMv6, ARMv7-M and ARMv6-M (tools/lift_arm32.py) Xtensa (tools/lift_xtensa.py, call0 ABI variant) m68k (tools/lift_m68k.py) and AVR5 (tools/lift_avr.py, start rounds 0..11) permutations; "
    "(4) in every lifted function the stack model is balanced at ret and rbx, rbp, r12-r15 hold their entry values (ABI), "
    "and every memory access lies inside the exactly-sized argument objects (CBMC pointer checks; the lifted code has no "
    "other memory). Supporting static facts, computed on every run from the working tree (not contracts): (a) each of the "
    "18 checked-in .S files is byte-for-byte the output of its generator under tools/ (generators compiled and run in a "
    "scratch directory); (b) executable stack: each x86-64 file is assembled with the assembler options of the "
    "repository's CMakeLists.txt and must carry a non-executable .note.GNU-stack section; for the other ELF targets (no "
    "cross assembler here) the file must contain the .note.GNU-stack directive or the build must pass --noexecstack. "
    "Fact (b) found a genuine defect: no assembly file carried the note and the build did not pass --noexecstack, so "
    "libascon.so was linked with an executable stack (GNU_STACK RWE); repaired in CMakeLists.txt."
)
ASSUMPTIONS = [
    "the two masked AVR5 assembly files (ascon-x2-asm-avr5.S, ascon-x3-asm-avr5.S) are NOT verified against the specification or their ABIs: only generator equality and the executable-stack fact are checked for them",
    "lifter trusted: instruction table, System V calling convention, narrow arguments arriving zero-extended; only the Linux/ELF preprocessor variant; the ASCON_MASKED_MAX_SHARES == 4 layout of the masked files in the quick tier, 3 and 2 in the thorough tier",
    "generator equality compares with the generators of the same working tree (a change made consistently to generator and output passes this fact and is then judged by the contract part, for x86-64 only)",
    "executable stack: decided per object file (a missing .note.GNU-stack section in any input object makes GNU ld mark the stack executable unless -z noexecstack is given); the final link of libascon is not repeated by the check",
]

X86_FILES = ["src/core/ascon-asm-x86-64.S", "src/masking/ascon-x2-asm-x86-64.S", "src/masking/ascon-x3-asm-x86-64.S",
             "src/masking/ascon-x4-asm-x86-64.S", "src/masking/ascon-word-asm-x86-64.S"]
GENERATORS = [
    ("genarm", "bin/ascon_armv6", [], "src/core/ascon-asm-armv6.S"), ("genarm", "bin/ascon_armv6m", [], "src/core/ascon-asm-armv6m.S"),
    ("genarm", "bin/ascon_armv7m", [], "src/core/ascon-asm-armv7m.S"), ("genarm", "bin/ascon_armv8a_64", [], "src/core/ascon-asm-armv8a-64.S"),
    ("genavr", "./genavr", ["ASCON"], "src/core/ascon-asm-avr5.S"), ("genavr", "./genavr", ["ASCON-x2"], "src/masking/ascon-x2-asm-avr5.S"),
    ("genavr", "./genavr", ["ASCON-x3"], "src/masking/ascon-x3-asm-avr5.S"),
    ("genm68k", "bin/ascon_m68k", [], "src/core/ascon-asm-m68k.S"),
    ("genriscv", "bin/ascon_riscv32e", [], "src/core/ascon-asm-riscv32e.S"), ("genriscv", "bin/ascon_riscv32i", [], "src/core/ascon-asm-riscv32i.S"),
    ("genriscv", "bin/ascon_riscv64", [], "src/core/ascon-asm-riscv64i.S"),
    ("genx86", "bin/ascon_i386", [], "src/core/ascon-asm-i386.S"), ("genx86", "bin/ascon_x86_64", [], "src/core/ascon-asm-x86-64.S"),
    ("genx86", "bin/ascon_x86_64_masked", ["2"], "src/masking/ascon-x2-asm-x86-64.S"),
    ("genx86", "bin/ascon_x86_64_masked", ["3"], "src/masking/ascon-x3-asm-x86-64.S"),
    ("genx86", "bin/ascon_x86_64_masked", ["4"], "src/masking/ascon-x4-asm-x86-64.S"),
    ("genx86", "bin/ascon_x86_64_masked_word", [], "src/masking/ascon-word-asm-x86-64.S"),
    ("genxtensa", "bin/ascon_xtensa_64", [], "src/core/ascon-asm-xtensa.S"),
]


def groups(tier):
    seed = int(os.environ.get("VERIF_SEED", "0") or 0)
    gs = c08.asm_groups(props=("C18",), prefix="c18")
    gs += c08.i386_groups(props=("C18",), prefix="c18")
    gs += c08.riscv_groups(props=("C18",), prefix="c18")
    gs += c08.arm64_groups(props=("C18",), prefix="c18")
    gs += c08.arm32_groups(props=("C18",), prefix="c18")
    gs += c08.xtensa_groups(props=("C18",), prefix="c18")
    gs += c08.m68k_groups(props=("C18",), prefix="c18")
    gs += c08.avr_groups(props=("C18",), prefix="c18", rounds=(0, 6, 11) if tier == "quick" else range(0, 12))
    gs += common.masked_asm_permute_groups("c18", ["C18"], tier, seed=seed, layouts=(4,) if tier == "quick" else (4, 3, 2))
    gs += common.masked_word_groups("c18", ["C18"], cfg="DEF", max_shares=4)
    return gs


def asm_flags():
    """assembler-related options the repository's build passes (-Wa,... tokens in the CMake files)"""
    flags = []
    for f in ("CMakeLists.txt", "src/CMakeLists.txt"):
        try:
            txt = open(os.path.join("/repo", f)).read()
        except OSError:
            continue
        for line in txt.splitlines():
            if line.strip().startswith("#"):
                continue
            flags += re.findall(r"-Wa,[\w,=-]+", line)
    return sorted(set(flags))


def custom(tier, results):
    viol = []
    cov = {"generator_equality": [], "executable_stack": []}
    repo = "/repo"
    scratch = tempfile.mkdtemp(prefix="c18gen_")
    try:
        shutil.copytree(os.path.join(repo, "tools"), os.path.join(scratch, "tools"))
        r = subprocess.run(["make", "-j8"], cwd=os.path.join(scratch, "tools"), stdout=subprocess.PIPE, stderr=subprocess.STDOUT)
        if r.returncode != 0:
            raise RuntimeError("generators do not build: " + r.stdout.decode()[-400:])
        for d, exe, args, target in GENERATORS:
            out = subprocess.run([exe] + args, cwd=os.path.join(scratch, "tools", d), stdout=subprocess.PIPE, stderr=subprocess.PIPE)
            if out.returncode != 0:
                raise RuntimeError("generator %s %s failed" % (exe, args))
            same = out.stdout == open(os.path.join(repo, target), "rb").read()
            cov["generator_equality"].append({"file": target, "generator": "tools/%s/%s %s" % (d, exe, " ".join(args)), "identical": same})
            if not same:
                viol.append({"what": "generator equality: %s differs from the output of tools/%s/%s %s" % (target, d, os.path.basename(exe), " ".join(args)),
                             "group": "c18.generator." + os.path.basename(target), "reproduced": True,
                             "log": "cmp of the generator's stdout with the checked-in file: different"})
        flags = asm_flags()
        noexec_flag = any("noexecstack" in f for f in flags)
        for f in X86_FILES:
            obj = os.path.join(scratch, os.path.basename(f) + ".o")
            cmd = ["gcc", "-c", "-x", "assembler-with-cpp", "-I" + repo + "/src", "-I" + repo + "/src/core", "-I" + repo + "/src/masking"] + flags + \
                  [os.path.join(repo, f), "-o", obj]
            a = subprocess.run(cmd, stdout=subprocess.PIPE, stderr=subprocess.PIPE)
            if a.returncode != 0:
                raise RuntimeError("cannot assemble %s: %s" % (f, a.stderr.decode()[-300:]))
            sec = subprocess.run(["readelf", "-SW", obj], stdout=subprocess.PIPE).stdout.decode()
            m = re.search(r"\.note\.GNU-stack\s+\S+\s+\S+\s+\S+\s+\S+\s+\S+\s+(\S*)", sec)
            ok = bool(m) and "X" not in (m.group(1) if m.group(1).isalpha() else "")
            cov["executable_stack"].append({"file": f, "assembled_with": " ".join(flags) or "(no -Wa options)", "note_GNU_stack": bool(m), "non_executable": ok})
            if not ok:
                viol.append({"what": "executable stack: object assembled from %s has no non-executable .note.GNU-stack section (the linker marks the stack of libascon executable)" % f,
                             "group": "c18.execstack." + os.path.basename(f), "reproduced": True,
                             "log": "readelf -SW of the object assembled with the repository's assembler options (%s): no .note.GNU-stack" % (" ".join(flags) or "none")})
        for d, exe, args, target in GENERATORS:
            if target in X86_FILES or "i386" in target and False:
                continue
            txt = open(os.path.join(repo, target)).read()
            ok = ".note.GNU-stack" in txt or noexec_flag
            cov["executable_stack"].append({"file": target, "assembled_with": "not assembled (no cross assembler): text fact", "note_GNU_stack": ".note.GNU-stack" in txt,
                                            "non_executable": ok})
            if not ok:
                viol.append({"what": "executable stack: %s has no .note.GNU-stack directive and the build does not pass --noexecstack" % target,
                             "group": "c18.execstack." + os.path.basename(target), "reproduced": False})
    finally:
        shutil.rmtree(scratch, ignore_errors=True)
    return viol, cov
