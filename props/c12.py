"""C12 - no out-of-bounds access, undefined behaviour or stray output writes."""
import os
from driver import Group
from props import common, c08

LEVEL = "proof"
EXPLANATION = (
    "Every group below runs with CBMC's bounds, pointer, pointer-overflow, pointer-primitive, signed-overflow, shift and "
    "division checks on the real code, with EXACTLY-sized buffers (fresh objects of the documented size: one byte beyond is a "
    "failed obligation), null pointers for empty optional inputs, and - where the function is under an enforced contract - "
    "the assigns clause as the output frame (a store outside the documented output range fails an 'assigns' obligation). "
    "Selected here, on the anchors of the property: the state byte operations (all offsets/sizes), the hex codec (every "
    "length, loop contracts), ascon_aead_check_tag, the nonce helpers, the masked-word toolkit and masked keys (share counts 3 "
    "and 4: this found the out-of-bounds store in ascon_masked_word_x3_zero, repaired), the HKDF expansion incl. the "
    "exhausted-counter zero fill, HMAC key handling around the block boundaries, the AEAD one-shot and incremental entry "
    "points, the SIV, ISAP and masked one-shot entry points at empty and block-straddling lengths, the zero-length/null-buffer L1 cases, and the file-name helpers of asconcrypt as main() calls them (this found "
    "the strip_suffix underflow/overflow, repaired). Every other enforced group of C01-C15 carries the same checks."
)
ASSUMPTIONS = [
    "alignment faults are not modelled (CBMC's memory model is byte-granular); assembly backends and C++ are not covered",
    "libc functions (memcpy, memset, strlen, strncmp) through CBMC's built-in models; snprintf/getopt/file I/O of the tools are outside (asconcrypt's add_suffix uses snprintf with the buffer size)",
    "asconcrypt file-name harness: BUFSIZ replaced by 32 so that over-long names are within reach; names up to 48 characters",
    "asconsum's line parser and read_keyfile are not covered",
]


def groups(tier):
    seed = int(os.environ.get("VERIF_SEED", "0") or 0)
    gs = []
    gs += [g for g in c08.byteop_groups("C64", props=("C12",)) ]
    if tier == "thorough":
        gs += c08.byteop_groups("DX", props=("C12",))
    for g in gs:
        g.name = g.name.replace("c08.", "c12.byteops.")
    hexg = __import__("props.c20", fromlist=["groups"]).groups(tier)
    for g in hexg:
        if g.kind == "proof":
            g.name = g.name.replace("c20.", "c12.hex.")
            gs.append(g)
    gs += common.check_tag_groups("c12", ["C12"], tier)
    c14 = __import__("props.c14", fromlist=["groups"]).groups(tier)
    gs += [setattr(g, "name", g.name.replace("c14.", "c12.nonce.")) or g for g in c14 if "increment_nonce" in g.name or "set_counter" in g.name]
    gs += common.masked_word_groups("c12", ["C12"], max_shares=3)
    gs += [g for g in common.masked_word_groups("c12", ["C12"], max_shares=4) if "_zero" in g.name or "partial" in g.name or "from" in g.name]
    gs += [g for g in common.masked_key_groups("c12", ["C12"]) if "roundtrip" in g.name]
    gs += [g for g in common.hkdf_groups("c12", ["C12"], tier=tier) if ".expand." in g.name and ("len33" in g.name or "len1." in g.name + "." or "len65" in g.name)]
    gs += [g for g in common.hmac_l2_groups("c12", ["C12"], tier="quick") if "_init.key" in g.name and ("key0." in g.name or "key33." in g.name or "key64." in g.name or "key65." in g.name)]
    gs += [g for g in common.aead_l2_groups("c12", ["C12"], "encrypt", alias_variants=()) if "ascon80pq" in g.name]
    gs += [g for g in common.aead_l2_groups("c12", ["C12"], "decrypt", alias_variants=()) if "ascon128a" in g.name]
    gs += [g for g in common.crypt_groups("c12", ["C12"], "encrypt", "quick", seed=seed) if g.name.endswith(".len0")]
    # SIV / ISAP / masked one-shot entry points: exactly sized buffers, null AD for adlen == 0, all pointer and bounds checks
    gs += [g for g in common.siv_groups("c12", ["C12"], "quick") if ".ad0.m0" in g.name or ".ad9.m17" in g.name or ".ad17.m33" in g.name]
    gs += [g for g in common.isap_groups("c12", ["C12"], "quick") if "128a" in g.name and ".ad9.m17" in g.name]
    gs += [g for g in common.masked_aead_groups("c12", ["C12"], "quick") if ".ad0.m0" in g.name]
    gs.append(Group("c12.app.asconcrypt_names", ["C12"], "harness/h_app_names.c", "h_app_names", [],
                    defs=["VERIF_NAME_MAX=48", "HAVE_GETOPT", "HAVE_GETOPT_H", "HAVE_ISATTY", "HAVE_UNISTD_H"], unwind=52, timeout=900,
                    functions=["strip_suffix", "is_encrypted_filename"], kind="bounded",
                    bound="file names of 0..48 characters, temporary buffer of 32 bytes instead of BUFSIZ", expect_classes=["assertion"]))
    return gs
