"""C19 - command-line tools: fail loudly on I/O errors, never report success wrongly (asconcrypt, asconsum)."""
from driver import Group

LEVEL = "proof"
EXPLANATION = (
    "The property is about process-level behaviour; what contracts can decide of it is the in-process control logic that "
    "produces that behaviour, on the real application sources (apps/asconcrypt/fileops.c under enforced function contracts; "
    "apps/asconcrypt/asconcrypt.c and apps/asconsum/asconsum.c included verbatim with main renamed). "
    "(1) safe_file_read / safe_file_write under enforced contracts with loop contracts (unbounded in the number of short "
    "transfers and in the length): against read()/write() contracts that may return any short count, EINTR/EAGAIN any number "
    "of times, or a hard error, the wrappers return -1 exactly when a hard error occurred, otherwise the number of bytes "
    "really transferred (write: all of them; read: all unless end of file), and touch nothing outside the buffer. "
    "(2) encrypt_file / decrypt_file / generate_password against those contracts as stubs (every read, write, open, random, "
    "KDF, SIV and AEAD step may fail at any call, i.e. 'failure of the k-th read/write for every k'; the chunk loops are closed "
    "by loop contracts): the function returns success only if no step failed - including the final authentication check and a "
    "truncated header/body - and whenever it does not return success the output file it created has been deleted; on success it "
    "is not deleted. This found that a failed or short safe_file_write was treated as success (repaired, D4). "
    "(3) asconsum hash_file / check_file with stdio and the digest computation stubbed: the selected algorithm absorbs exactly "
    "the bytes read, in order; the digest printed is the one computed; hash_file fails exactly when the file cannot be opened or "
    "read; check mode prints OK for a line exactly when it is well formed, the listed file was read without error and its "
    "digest equals the listed one, and check_file returns success exactly when every non-empty line was well formed and OK. "
    "The cryptographic content (what the AEAD/SIV/hash calls compute, hence round trip and tamper detection of the stream "
    "itself) is carried by C01/C02/C04/C05/C06 for the library functions the tools call; the composition 'file format round "
    "trip for every content' is NOT decided here (see assumptions)."
)
ASSUMPTIONS = [
    "process-level facts (exit status propagation from main, unlink really removing the file, stderr text) are outside: main() of either tool is not under contract; getopt/terminal password reading (readpass.c) not covered",
    "asconcrypt.c is checked with BUFSIZ = 48 (three 16-byte tail windows) and file names/passwords up to 8 characters; library calls (pbkdf2, siv, aead, random) are stubs that return arbitrary data and may report failure; the file-format round trip (decrypt(encrypt(f)) == f for every content) and tamper detection at every byte are not decided by contracts here - they rest on C01/C02 (ASCON-80pq incremental), C06 (SIV) and the unverified framing code",
    "asconsum.c is checked with BUFSIZ = 16, files of fewer than 2-3 buffers, checksum lines of up to 82 characters, one (quick: two of the five line-length buckets, rotating with the seed) or two (thorough) lines, listed file name '-' (stdin) excluded; ferror on the checksum file itself is not consulted by the tool and not required by the property text",
    "read()/write()/open()/close()/unlink() are contracts written from POSIX, not verified",
]

HAVE = ["HAVE_GETOPT", "HAVE_GETOPT_H", "HAVE_ISATTY", "HAVE_UNISTD_H", "HAVE_OPEN", "HAVE_FCNTL_H"]


def groups(tier):
    gs = []
    for op in ("read", "write"):
        gs.append(Group("c19.fileops.safe_file_" + op, ["C19"], "harness/h_fileops.c", "h_fileops", ["apps/asconcrypt/fileops.c"],
                        enforce="safe_file_" + op, replace=["read", "write"],
                        defs=["VERIF_ENFORCE_safe_file_" + op, "VERIF_LC_safe_file_" + op, "HAVE_OPEN", "HAVE_UNISTD_H", "HAVE_FCNTL_H"],
                        contracts=["contracts/c_fileops.h"], loop_contracts=True, drop_unused=True, timeout=900,
                        functions=["safe_file_" + op], assumed=["read", "write"],
                        # for(;;) has no guard location: CBMC names the loop-invariant base/step obligations
                        # "<fn>_wrapped_for_contract_checking.N" without a class
                        expect_classes=["postcondition", "safe_file_%s_wrapped_for_contract_checking" % op, "assigns"]))
    for op in ("encrypt", "decrypt", "genpw"):
        lc = {"encrypt": ["VERIF_LC_encrypt_file"], "decrypt": ["VERIF_LC_decrypt_file"], "genpw": []}[op]
        fn = {"encrypt": "encrypt_file", "decrypt": "decrypt_file", "genpw": "generate_password"}[op]
        gs.append(Group("c19.asconcrypt." + fn, ["C19"], "harness/h_asconcrypt.c", "h_asconcrypt", [],
                        defs=["OP_" + op] + HAVE + lc, loop_contracts=bool(lc), drop_unused=True, unwind=70,
                        unwind_pre=["havoc_bytes.0:98"], timeout=1500, functions=[fn],
                        kind="proof" if lc else "bounded",
                        bound=None if lc else "password length and buffer sizes as in the harness (loop-free otherwise)",
                        assumed=["safe_file_read", "safe_file_write", "safe_file_open", "safe_file_close", "safe_file_delete",
                                 "ascon_random_generate", "ascon_pbkdf2", "ascon_siv_encrypt", "ascon_siv_decrypt",
                                 "ascon80pq_aead_*"],
                        expect_classes=["assertion"] + (["loop_invariant_step"] if lc else []),
                        note="BUFSIZ 48; chunk loop closed by loop contract; other loops (strlen, havoc) unwound with unwinding assertions"))
    # check mode: the first line's length is split into buckets (the groups run in parallel; together they cover 0..82)
    sums = [("hash", 1, 3, None)]
    buckets = [(0, 40), (41, 65), (66, 70), (71, 76), (77, 82)]
    if tier == "quick":
        # each of these groups needs ~10 GB of solver memory, so only three fit side by side: the quick tier runs the bucket
        # with the shortest well-formed lines (the OK / FAILED / read-error logic) and one other bucket chosen by the seed
        import os
        seed = int(os.environ.get("VERIF_SEED", "0") or 0)
        other = [b for b in buckets if b != (66, 70)]
        buckets = [(66, 70), other[seed % len(other)]]
    for lo, hi in buckets:
        sums.append(("check", 1, 2, (lo, hi)))
    if tier == "thorough":
        for lo, hi in ((0, 65), (66, 74), (75, 82)):
            sums.append(("check", 2, 2, (lo, hi)))
    for op, lines, bufs, bucket in sums:
        bd = ["VERIF_NMIN=%d" % bucket[0], "VERIF_NMAX=%d" % bucket[1]] if bucket else []
        gs.append(Group("c19.asconsum.%s_file.lines%d%s" % (op, lines, ".n%d-%d" % bucket if bucket else ""), ["C19"], "harness/h_asconsum.c", "h_asconsum", [],
                        defs=["OP_" + op, "VERIF_LINES=%d" % lines, "VERIF_BUFS=%d" % bufs, "HAVE_GETOPT", "HAVE_GETOPT_H"] + bd,
                        drop_unused=True, unwind=100, timeout=3000 if lines > 1 else 1500, kind="bounded",
                        bound="BUFSIZ 16, files of fewer than %d buffers, %d checksum line(s) of up to 82 characters%s" %
                              (bufs, lines, " (first line: %d..%d characters)" % bucket if bucket else ""),
                        functions=["hash_file", "check_file", "ascon_hash_file", "ascon_hasha_file", "ascon_xof_file", "ascon_xofa_file", "to_hex_digit"],
                        assumed=["fopen", "fread", "fgets", "ferror", "fclose", "ascon_hash_*", "ascon_xof_*"],
                        expect_classes=["assertion"]))
        if lines > 1:
            gs[-1].reach = False      # vacuity of this harness is established by the one-line groups (a two-line pass costs 20 min and 10 GB)
    return gs
