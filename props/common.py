"""Shared group builders."""
from driver import Group

BACKEND_SRC = {"C64": "src/core/ascon-sliced64.c", "DEF": "src/core/ascon-sliced64.c",
               "C32": "src/core/ascon-sliced32.c", "DX": "src/core/ascon-direct-xor.c", "GEN": "src/core/ascon-direct-xor.c"}

AEAD_COMMON = "src/aead/ascon-aead-common.c"


def absorb_groups(prefix, props, cfg="C64"):
    """L1 ascon_aead_absorb_8/16: loop contract, every length up to 2^40."""
    gs = []
    for R in (8, 16):
        f = "ascon_aead_absorb_%d" % R
        pre = ["ascon_add_bytes.0:%d" % (R + 1), "spec_absorb_run.0:%d" % (R + 1)]
        if cfg in ("DX", "GEN"):
            pre = None   # different inner loops; not set up
        gs.append(Group("%s.l1.%s.%s" % (prefix, f, cfg), props, "harness/h_aead_l1.c", "h_aead_l1",
                        [AEAD_COMMON, BACKEND_SRC[cfg]], cfg=cfg, enforce=f, replace=["ascon_permute"],
                        defs=["VERIF_ENFORCE_" + f, "VERIF_CALL_" + f, "VERIF_LC_aead_absorb_%d" % R, "VERIF_ABSTRACT_P"],
                        contracts=["contracts/c_permute_abstract.h", "contracts/c_aead_l1.h"],
                        loop_contracts=True, drop_unused=True, unwind_pre=pre, timeout=1500,
                        expect_classes=["loop_invariant_step", "loop_invariant_base", "assertion", "assigns"]))
    return gs


def crypt_lens(R, p, tier):
    """lengths for the step proof of the write loops: everything below 2*rate in
    the thorough tier; in the quick tier the lengths that hit each code region
    boundary for entry position p"""
    if tier == "thorough":
        return list(range(0, 2 * R))
    t = R - p if p else 0
    s = {0, 1, t, t + 1, t + R, t + R + 1, 2 * R - 1, R, R - 1}
    return sorted(x for x in s if 0 <= x < 2 * R)


def crypt_groups(prefix, props, fn, tier, cfg="C64", seed=0, plumbing=False):
    """L1 ascon_aead_{encrypt,decrypt}_{8,16}: step proof from an arbitrary state,
    one (entry position, length) pair per group, both constants."""
    gs = []
    for R in (8, 16):
        f = "ascon_aead_%s_%d" % (fn, R)
        if tier == "thorough":
            ps = list(range(R))
        else:
            ps = sorted({0, 1, R // 2, R - 1, 2 + (seed % (R - 3))})
        for alias in (False, True):
            for p in ps:
                for ln in crypt_lens(R, p, tier):
                    gs.append(Group("%s.l1.%s%s.%s.p%d.len%d" % (prefix, f, ".alias" if alias else "", cfg, p, ln), props,
                                    "harness/h_aead_crypt.c", "h_aead_crypt", [AEAD_COMMON, BACKEND_SRC[cfg]], cfg=cfg,
                                    enforce=f, replace=["ascon_permute"],
                                    defs=["VERIF_ENFORCE_" + f, "VERIF_FN=" + f, "VERIF_RATE=%d" % R, "VERIF_LEN_BOUND=%d" % (4 * R),
                                          "VERIF_ABSTRACT_P", "VERIF_PARTIAL=%d" % p, "VERIF_LEN=%d" % ln] +
                                         (["VERIF_DECRYPT"] if fn == "decrypt" else []) + (["VERIF_ALIAS"] if alias else []),
                                    contracts=["contracts/c_permute_abstract.h", "contracts/c_aead_crypt.h"],
                                    drop_unused=True, unwind=4 * R + 2, timeout=600,
                                    expect_classes=["postcondition", "assigns"]))
    return gs
