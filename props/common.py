"""Shared group builders."""
import os
from driver import Group

BACKEND_SRC = {"C64": "src/core/ascon-sliced64.c", "DEF": "src/core/ascon-sliced64.c",
               "C32": "src/core/ascon-sliced32.c", "DX": "src/core/ascon-direct-xor.c", "GEN": "src/core/ascon-direct-xor.c"}

AEAD_COMMON = "src/aead/ascon-aead-common.c"


def absorb_groups(prefix, props, cfg="C64"):
    """L1 ascon_aead_absorb_8/16: loop contract, every length up to 2^40."""
    gs = []
    for R in (8, 16):
        f = "ascon_aead_absorb_%d" % R
        pre = ["ascon_add_bytes.0:%d" % (R + 1), "spec_absorb_run.0:%d" % (R + 1)]
        if cfg in ("DX", "GEN"):
            pre = None   # different inner loops; not set up
        gs.append(Group("%s.l1.%s.%s" % (prefix, f, cfg), props, "harness/h_aead_l1.c", "h_aead_l1",
                        [AEAD_COMMON, BACKEND_SRC[cfg]], cfg=cfg, enforce=f, replace=["ascon_permute"],
                        defs=["VERIF_ENFORCE_" + f, "VERIF_CALL_" + f, "VERIF_LC_aead_absorb_%d" % R, "VERIF_ABSTRACT_P"],
                        contracts=["contracts/c_permute_abstract.h", "contracts/c_aead_l1.h"],
                        loop_contracts=True, drop_unused=True, unwind_pre=pre, timeout=1500, replay=aead_replay(cfg),
                        expect_classes=["loop_invariant_step", "loop_invariant_base", "assertion", "assigns"]))
    return gs


def crypt_lens(R, p, tier):
    """lengths for the step proof of the write loops: everything below 2*rate in
    the thorough tier; in the quick tier the lengths that hit each code region
    boundary for entry position p"""
    if tier == "thorough":
        return list(range(0, 2 * R))
    t = R - p if p else 0
    s = {0, 1, t, t + 1, t + R, t + R + 1, 2 * R - 1, R, R - 1}
    return sorted(x for x in s if 0 <= x < 2 * R)


def crypt_groups(prefix, props, fn, tier, cfg="C64", seed=0, plumbing=False):
    """L1 ascon_aead_{encrypt,decrypt}_{8,16}: step proof from an arbitrary state,
    one (entry position, length) pair per group, both constants."""
    gs = []
    for R in (8, 16):
        f = "ascon_aead_%s_%d" % (fn, R)
        if tier == "thorough":
            ps = list(range(R))
        else:
            ps = sorted({0, 1, R // 2, R - 1, 2 + (seed % (R - 3))})
        for alias in (False, True):
            for p in ps:
                for ln in crypt_lens(R, p, tier):
                    gs.append(Group("%s.l1.%s%s.%s.p%d.len%d" % (prefix, f, ".alias" if alias else "", cfg, p, ln), props,
                                    "harness/h_aead_crypt.c", "h_aead_crypt", [AEAD_COMMON, BACKEND_SRC[cfg]], cfg=cfg,
                                    enforce=f, replace=["ascon_permute"],
                                    defs=["VERIF_ENFORCE_" + f, "VERIF_FN=" + f, "VERIF_RATE=%d" % R, "VERIF_LEN_BOUND=%d" % (4 * R),
                                          "VERIF_ABSTRACT_P", "VERIF_PARTIAL=%d" % p, "VERIF_LEN=%d" % ln] +
                                         (["VERIF_DECRYPT"] if fn == "decrypt" else []) + (["VERIF_ALIAS"] if alias else []),
                                    contracts=["contracts/c_permute_abstract.h", "contracts/c_aead_crypt.h"],
                                    drop_unused=True, unwind=4 * R + 2, timeout=600, replay=aead_replay(cfg),
                                    expect_classes=["postcondition", "assigns"]))
    return gs

AEAD_VARIANTS = {
    "128": ("SPEC_ASCON128", 16, 8, 6, "src/aead/ascon-aead-128.c"),
    "128a": ("SPEC_ASCON128A", 16, 16, 4, "src/aead/ascon-aead-128a.c"),
    "80pq": ("SPEC_ASCON80PQ", 20, 8, 6, "src/aead/ascon-aead-80pq.c"),
}

AEAD_REPLAY_SRCS = ["src/aead/ascon-aead-128.c", "src/aead/ascon-aead-128a.c", "src/aead/ascon-aead-80pq.c",
                    "src/aead/ascon-aead-common.c", "src/aead/ascon-aead-inc-128.c", "src/aead/ascon-aead-inc-128a.c",
                    "src/aead/ascon-aead-inc-80pq.c", "src/aead/ascon-aead-util.c", "src/core/ascon-clean.c"]
PERM_SRC = {"C64": ["src/core/ascon-c64.c", "src/core/ascon-sliced64.c"], "C32": ["src/core/ascon-c32.c", "src/core/ascon-sliced32.c"],
            "DX": ["src/core/ascon-c64.c", "src/core/ascon-direct-xor.c"], "GEN": ["src/core/ascon-c64.c", "src/core/ascon-direct-xor.c"]}


def aead_replay(cfg="C64"):
    return {"prog": "replay/r_aead.c", "srcs": AEAD_REPLAY_SRCS + PERM_SRC[cfg]}


def aead_l2_groups(prefix, props, op, cfg="C64", alias_variants=("128",)):
    """L2 one-shot ascon{128,128a,80pq}_aead_{encrypt,decrypt}: every length < 2^40."""
    gs = []
    for var, (params, keylen, rate, rnd, src) in AEAD_VARIANTS.items():
        f = "ascon%s_aead_%s" % (var, op)
        for alias in ([False, True] if var in alias_variants else [False]):
            gs.append(Group("%s.l2.%s%s.%s" % (prefix, f, ".inplace" if alias else "", cfg), props,
                            "harness/h_aead_l2.c", "h_aead_l2", [src, BACKEND_SRC[cfg], "src/core/ascon-clean.c"], cfg=cfg,
                            enforce=f,
                            replace=["ascon_permute", "ascon_aead_absorb_%d" % rate, "ascon_aead_%s_%d" % (op, rate)] +
                                    (["ascon_aead_check_tag"] if op == "decrypt" else []),
                            defs=["VERIF_L2_FN=" + f, "VERIF_L2_" + op.upper(), "VERIF_L2_PARAMS=" + params,
                                  "VERIF_L2_KEYLEN=%d" % keylen, "VERIF_L2_RATE=%d" % rate, "VERIF_L2_ROUND=%d" % rnd,
                                  "VERIF_ABSTRACT_P", "VERIF_L1_SUMMARY"] + (["VERIF_ALIAS"] if alias else []),
                            contracts=["contracts/c_permute_abstract.h", "contracts/c_aead_l2.h"],
                            drop_unused=True, unwind=42, timeout=1200, replay=aead_replay(cfg),
                            expect_classes=["postcondition", "assigns", "precondition"]))
    return gs


def check_tag_groups(prefix, props, tier, cfg="C64"):
    gs = []
    n = 64 if tier == "quick" else 160    # (512 exhausted the solver memory when run beside other groups)
    gs.append(Group("%s.l1.ascon_aead_check_tag.result" % prefix, props, "harness/h_check_tag.c", "h_check_tag",
                    [AEAD_COMMON], cfg=cfg, enforce="ascon_aead_check_tag", defs=["VERIF_MAXLEN=0"],
                    contracts=["contracts/c_check_tag.h"], drop_unused=True,
                    unwindset=["ascon_aead_check_tag.0:17", "ascon_aead_check_tag.1:1"],
                    replay=aead_replay(cfg), expect_classes=["postcondition", "assigns"],
                    note="exact result for every pair of 16-byte tags (complete: the comparison loop has 16 iterations)"))
    gs.append(Group("%s.l1.ascon_aead_check_tag.wipe%d" % (prefix, n), props, "harness/h_check_tag.c", "h_check_tag",
                    [AEAD_COMMON], cfg=cfg, enforce="ascon_aead_check_tag", defs=["VERIF_MAXLEN=%d" % n],
                    contracts=["contracts/c_check_tag.h"], drop_unused=True, kind="bounded",
                    bound="plaintext_len <= %d (the wipe loop writes through a moving pointer: no loop contract possible, DESIGN 2.9)" % n,
                    unwindset=["ascon_aead_check_tag.0:17", "ascon_aead_check_tag.1:%d" % (n + 1)],
                    replay=aead_replay(cfg), expect_classes=["postcondition", "assigns"], timeout=1800))
    return gs

INC_SRC = {"128": "src/aead/ascon-aead-inc-128.c", "128a": "src/aead/ascon-aead-inc-128a.c", "80pq": "src/aead/ascon-aead-inc-80pq.c"}
INC_OPS = ("init", "reinit", "start", "encrypt_block", "encrypt_finalize", "decrypt_block", "decrypt_finalize")


def aead_inc_groups(prefix, props, ops=INC_OPS, cfg="C64", alias=True):
    """L2 contracts of the incremental AEAD API from an arbitrary session object."""
    gs = []
    for var, (params, keylen, rate, rnd, _src) in AEAD_VARIANTS.items():
        for op in ops:
            f = "ascon%s_aead_%s" % (var, op)
            variants = [False, True] if (alias and op.endswith("_block")) else [False]
            for al in variants:
                repl = ["ascon_permute"]
                defs = ["VERIF_FN=" + f, "VERIF_INC_" + op, "VERIF_T=ascon%s_state_t" % var, "VERIF_PARAMS=" + params,
                        "VERIF_KEYLEN=%d" % keylen, "VERIF_RATE=%d" % rate, "VERIF_ROUND=%d" % rnd,
                        "VERIF_ABSTRACT_P", "VERIF_L1_SUMMARY"] + (["VERIF_ALIAS"] if al else [])
                srcs = [INC_SRC[var], BACKEND_SRC[cfg], "src/core/ascon-clean.c"]
                if op == "start":
                    repl.append("ascon_aead_absorb_%d" % rate)
                    srcs.append("src/aead/ascon-aead-util.c")
                if op == "encrypt_block":
                    repl.append("ascon_aead_encrypt_%d" % rate)
                    defs.append("VERIF_CRYPT_TAG=%du" % (3 if rate == 8 else 4))
                if op == "decrypt_block":
                    repl.append("ascon_aead_decrypt_%d" % rate)
                    defs.append("VERIF_CRYPT_TAG=%du" % (5 if rate == 8 else 6))
                if op == "decrypt_finalize":
                    srcs.append(AEAD_COMMON)   # the real ascon_aead_check_tag, inlined (16 iterations, null plaintext)
                gs.append(Group("%s.l2.%s%s.%s" % (prefix, f, ".inplace" if al else "", cfg), props,
                                "harness/h_aead_inc.c", "h_aead_inc", srcs, cfg=cfg, enforce=f, replace=repl, defs=defs,
                                contracts=["contracts/c_permute_abstract.h", "contracts/c_aead_inc.h"],
                                drop_unused=True, unwind=42, timeout=900, replay=aead_replay(cfg),
                                expect_classes=["postcondition", "assigns"]))
    return gs

SPONGE = {
    "xof": ("ascon_xof_state_t", "SPEC_XOF", 8, 8, "src/hash/ascon-xof.c"),
    "xofa": ("ascon_xofa_state_t", "SPEC_XOFA", 8, 8, "src/hash/ascon-xofa.c"),
    "prf": ("ascon_prf_state_t", "SPEC_PRF", 32, 16, "src/mac/ascon-prf.c"),
}


def sponge_lens(rate, count, tier):
    if tier == "thorough":
        return list(range(0, 2 * rate))
    t = rate - count if count else 0
    s = {0, 1, t - 1, t, t + 1, t + rate, t + rate + 1, rate - 1, rate, 2 * rate - 1}
    return sorted(x for x in s if 0 <= x < 2 * rate)


def sponge_l1_groups(prefix, props, fam, ops, tier, cfg="C64", seed=0):
    """L1 step proofs of ascon_{xof,xofa,prf}_{absorb,squeeze}: one constant (count, mode, length) per group."""
    typ, params, rin, rout, src = SPONGE[fam]
    gs = []
    for op in ops:
        rate = rin if op == "absorb" else rout
        f = "ascon_%s_%s" % (fam, op)
        # entry states: absorbing at count c (rate_in) or squeezing at count c (rate_out)
        entries = []
        for mode in (0, 1):
            r = rin if mode == 0 else rout
            cs = range(r) if tier == "thorough" else sorted({0, 1, r // 2, r - 1, 2 + seed % (r - 3)})
            entries += [(c, mode) for c in cs]
        for (c, mode) in entries:
            same_phase = (mode == 0) == (op == "absorb")
            lens = sponge_lens(rate, c if same_phase else 0, tier)
            if tier != "thorough" and not same_phase:
                lens = [x for x in lens if x in (0, 1, rate, rate + 1)]
            for ln in lens:
                gs.append(Group("%s.l1.%s.%s.c%d.m%d.len%d" % (prefix, f, cfg, c, mode, ln), props,
                                "harness/h_sponge_l1.c", "h_sponge_l1", [src, BACKEND_SRC[cfg], "src/core/ascon-clean.c"], cfg=cfg,
                                enforce=f, replace=["ascon_permute"],
                                defs=["VERIF_FN=" + f, "VERIF_T=" + typ, "VERIF_PARAMS=" + params, "VERIF_COUNT=%d" % c,
                                      "VERIF_MODE=%d" % mode, "VERIF_LEN=%d" % ln, "VERIF_LEN_BOUND=%d" % (2 * rate + 2),
                                      "VERIF_ABSTRACT_P"] + (["VERIF_SPONGE_ABSORB"] if op == "absorb" else []),
                                contracts=["contracts/c_permute_abstract.h", "contracts/c_sponge_l1.h"],
                                drop_unused=True, unwind=max(2 * rate + 4, 42), timeout=600,
                                expect_classes=["postcondition", "assigns"]))
    return gs

XOF_TWINS = {
    "xof": dict(src="src/hash/ascon-xof.c", hsrc="src/hash/ascon-hash.c", iv="0x00400c00u", rc=0, hash="hash", T="ascon_xof_state_t",
                HT="ascon_hash_state_t", ta="SP_TAG_XOF_ABSORB", ts="SP_TAG_XOF_SQUEEZE"),
    "xofa": dict(src="src/hash/ascon-xofa.c", hsrc="src/hash/ascon-hasha.c", iv="0x00400c04u", rc=4, hash="hasha", T="ascon_xofa_state_t",
                 HT="ascon_hasha_state_t", ta="SP_TAG_XOFA_ABSORB", ts="SP_TAG_XOFA_SQUEEZE"),
}


def xof_l2_groups(prefix, props, cfg="C64", which=None):
    gs = []

    def G(name, fn, op, T, srcs, abstract, extra_defs=(), replace=(), xst="(p)", unwind=42, timeout=900):
        defs = ["VERIF_FN=" + fn, "VERIF_ENFORCE_" + op, "VERIF_T=" + T, "XIV=" + tw["iv"], "XRC=%d" % tw["rc"],
                "XTAG_ABSORB=" + tw["ta"], "XTAG_SQUEEZE=" + tw["ts"], "VERIF_XST(p)=" + xst] + list(extra_defs)
        contracts = ["contracts/c_xof_l2.h"]
        repl = list(replace)
        if abstract:
            defs += ["VERIF_ABSTRACT_P", "VERIF_L1_SUMMARY"]
            contracts = ["contracts/c_permute_abstract.h"] + contracts
        else:
            defs += ["VERIF_CONCRETE"]
        if which and not any(w in name for w in which):
            return
        gs.append(Group("%s.l2.%s.%s" % (prefix, name, cfg), props, "harness/h_xof_l2.c", "h_xof_l2",
                        srcs + [BACKEND_SRC[cfg], "src/core/ascon-clean.c"], cfg=cfg, enforce=fn, replace=repl, defs=defs,
                        contracts=contracts, drop_unused=True, unwind=unwind, timeout=timeout,
                        expect_classes=["postcondition", "assigns"]))

    for x, tw in XOF_TWINS.items():
        h = tw["hash"]
        A, S = "ascon_%s_absorb" % x, "ascon_%s_squeeze" % x
        # pre-computed initial values == p^12(IV block of the specification): concrete, no permutation call
        G("ascon_%s_init" % x, "ascon_%s_init" % x, "init", tw["T"], [tw["src"]], False, ["VERIF_LBITS=0"])
        G("ascon_%s_reinit" % x, "ascon_%s_reinit" % x, "reinit", tw["T"], [tw["src"]], False, ["VERIF_LBITS=0"])
        G("ascon_%s_init" % h, "ascon_%s_init" % h, "init", tw["HT"], [tw["hsrc"], tw["src"]], False, ["VERIF_LBITS=256"], xst="(&(p)->xof)")
        G("ascon_%s_reinit" % h, "ascon_%s_reinit" % h, "reinit", tw["HT"], [tw["hsrc"], tw["src"]], False, ["VERIF_LBITS=256"], xst="(&(p)->xof)")
        G("ascon_%s_init_fixed.tables" % x, "ascon_%s_init_fixed" % x, "init_fixed_const", tw["T"], [tw["src"]], False)
        G("ascon_%s_reinit_fixed.tables" % x, "ascon_%s_reinit_fixed" % x, "reinit_fixed_const", tw["T"], [tw["src"]], False)
        # generic declared lengths: abstract permutation
        G("ascon_%s_init_fixed.generic" % x, "ascon_%s_init_fixed" % x, "init_fixed_gen", tw["T"], [tw["src"]], True,
          replace=["ascon_permute"])
        G("ascon_%s_absorb_custom" % x, "ascon_%s_absorb_custom" % x, "absorb_custom", tw["T"], [tw["src"]], True,
          replace=["ascon_permute", A])
        for op in ("init_custom", "reinit_custom"):
            G("ascon_%s_%s" % (x, op), "ascon_%s_%s" % (x, op), op, tw["T"], [tw["src"]], True,
              ["VERIF_NAME_MAX=40", "VERIF_REPLACE_XOF_INIT_FIXED"],
              replace=["ascon_permute", A, S, "ascon_%s_init_fixed" % x], unwind=44, timeout=1800)
        G("ascon_%s" % x, "ascon_%s" % x, "oneshot", tw["T"], [tw["src"]], True, ["VERIF_LBITS=0", "VERIF_REPLACE_XOF_INIT"],
          replace=[A, S, "ascon_%s_init" % x])
        G("ascon_%s" % h, "ascon_%s" % h, "oneshot", tw["T"], [tw["hsrc"], tw["src"]], True, ["VERIF_LBITS=256", "VERIF_REPLACE_XOF_INIT"],
          replace=[A, S, "ascon_%s_init" % h])
        G("ascon_%s_copy" % x, "ascon_%s_copy" % x, "copy", tw["T"], [tw["src"]], False)
        G("ascon_%s_copy" % h, "ascon_%s_copy" % h, "copy", tw["HT"], [tw["hsrc"], tw["src"]], False, xst="(&(p)->xof)")
        G("ascon_%s_free" % x, "ascon_%s_free" % x, "free", tw["T"], [tw["src"]], False)
        G("ascon_%s_free" % h, "ascon_%s_free" % h, "free", tw["HT"], [tw["hsrc"], tw["src"]], False, xst="(&(p)->xof)")
    return gs

HASH_REPLAY_SRCS = ["src/hash/ascon-xof.c", "src/hash/ascon-xofa.c", "src/hash/ascon-hash.c", "src/hash/ascon-hasha.c", "src/core/ascon-clean.c"]


def hash_replay(cfg="C64"):
    return {"prog": "replay/r_hash.c", "srcs": HASH_REPLAY_SRCS + PERM_SRC[cfg]}


def with_replay(gs, rp):
    for g in gs:
        if g.replay is None:
            g.replay = rp
    return gs

PRF_SRC = "src/mac/ascon-prf.c"


def prf_l2_groups(prefix, props, cfg="C64"):
    gs = []
    base = ["ascon_permute"]
    specs = [("prf_fixed_init", "ascon_prf_fixed_init", base, []),
             ("prf_init", "ascon_prf_init", base, []),
             ("prf", "ascon_prf", base + ["ascon_prf_absorb", "ascon_prf_squeeze"], ["VERIF_FN=ascon_prf"]),
             ("prf_fixed", "ascon_prf_fixed", base + ["ascon_prf_absorb", "ascon_prf_squeeze"], ["VERIF_FN=ascon_prf_fixed"]),
             ("mac", "ascon_mac", base + ["ascon_prf_absorb", "ascon_prf_squeeze"], []),
             ("mac_verify", "ascon_mac_verify", base + ["ascon_prf_absorb", "ascon_prf_squeeze", "ascon_aead_check_tag"], []),
             ("prf_short", "ascon_prf_short", base, [])]
    for op, f, repl, extra in specs:
        srcs = [PRF_SRC, BACKEND_SRC[cfg], "src/core/ascon-clean.c"] + ([AEAD_COMMON] if op == "mac_verify" else [])
        gs.append(Group("%s.l2.%s.%s" % (prefix, f, cfg), props, "harness/h_prf_l2.c", "h_prf_l2", srcs, cfg=cfg, enforce=f,
                        replace=repl, defs=["VERIF_ENFORCE_" + op, "VERIF_ABSTRACT_P", "VERIF_L1_SUMMARY"] + extra,
                        contracts=["contracts/c_permute_abstract.h", "contracts/c_prf_l2.h"], drop_unused=True, unwind=42,
                        timeout=900, expect_classes=["postcondition", "assigns"]))
    return gs

XOF_RENAME = ["ascon_xof_absorb=verif_real_xof_absorb", "ascon_xof_squeeze=verif_real_xof_squeeze"]
XOFA_RENAME = ["ascon_xofa_absorb=verif_real_xofa_absorb", "ascon_xofa_squeeze=verif_real_xofa_squeeze"]


def hmac_l2_groups(prefix, props, cfg="C64", tier="quick"):
    """HMAC / HMACA against RFC 2104: plain-assertion groups (the postcondition of the contract is asserted by the
    harness; callees are specification stubs), one constant key length per group."""
    gs = []
    for alg, hsrc, xsrc, ren, hiv, pp, ta, T, hinit in (
            ("hmac", "src/hash/ascon-hash.c", "src/hash/ascon-xof.c", XOF_RENAME, "0x00400c00u", "SPEC_XOF", "11u", "ascon_hmac_state_t", "ascon_hash_init"),
            ("hmaca", "src/hash/ascon-hasha.c", "src/hash/ascon-xofa.c", XOFA_RENAME, "0x00400c04u", "SPEC_XOFA", "13u", "ascon_hmaca_state_t", "ascon_hasha_init")):
        for op, f in (("hmac", "ascon_%s" % alg), ("hmac_init", "ascon_%s_init" % alg), ("hmac_reinit", "ascon_%s_reinit" % alg),
                      ("hmac_finalize", "ascon_%s_finalize" % alg)):
            # (every key length 0..66 took hours: each group needs 40-170 s and several GB)
            klens = [0, 1, 31, 32, 33, 63, 64, 65, 100] if tier == "quick" else [0, 1, 16, 31, 32, 33, 48, 62, 63, 64, 65, 66, 100, 1000]
            for kl in klens:
                for iname, idefs in ((("long", []), ("in0", ["VERIF_INLEN=0"]), ("in5", ["VERIF_INLEN=5"])) if op == "hmac" else
                                     (("c0", ["VERIF_INNER_COUNT=0"]), ("c5", ["VERIF_INNER_COUNT=5"])) if op == "hmac_finalize" else (("", []),)):
                    gs.append(Group("%s.l2.%s.key%d%s.%s" % (prefix, f, kl, ("." + iname) if iname else "", cfg), props,
                                    "harness/h_hmac_l2.c", "h_hmac_l2",
                                    ["src/mac/ascon-%s.c" % alg, (hsrc, [hinit + "=verif_real_" + hinit, hinit.replace("_init", "_reinit") + "=verif_real_" + hinit.replace("_init", "_reinit")]), (xsrc, ren), BACKEND_SRC[cfg],
                                     "src/core/ascon-clean.c"], cfg=cfg, functions=[f],
                                    defs=["VERIF_PLAIN", "VERIF_ENFORCE_" + op, "VERIF_FN=" + f, "VERIF_T=" + T, "HIV=" + hiv, "HPARAMS=" + pp,
                                          "HTAG_ABSORB=" + ta, "VERIF_ABSTRACT_P", "VERIF_L1_SUMMARY", "VERIF_KEYLEN=%d" % kl] + idefs,
                                    drop_unused=True, unwind=66, timeout=900, expect_classes=["assertion"]))
    return gs

X64 = "src/core/ascon-sliced64.c"
CLEAN = "src/core/ascon-clean.c"
FREE_TABLE = [
    # function, type, zero expression, sources
    ("ascon_free", "ascon_state_t", "ZB(state,40)", []),
    ("ascon128_aead_free", "ascon128_state_t", "ZB(state,sizeof(ascon128_state_t))", ["src/aead/ascon-aead-inc-128.c"]),
    ("ascon128a_aead_free", "ascon128a_state_t", "ZB(state,sizeof(ascon128a_state_t))", ["src/aead/ascon-aead-inc-128a.c"]),
    ("ascon80pq_aead_free", "ascon80pq_state_t", "ZB(state,sizeof(ascon80pq_state_t))", ["src/aead/ascon-aead-inc-80pq.c"]),
    ("ascon_xof_free", "ascon_xof_state_t", "ZX(state)", ["src/hash/ascon-xof.c"]),
    ("ascon_xofa_free", "ascon_xofa_state_t", "ZX(state)", ["src/hash/ascon-xofa.c"]),
    ("ascon_hash_free", "ascon_hash_state_t", "ZX(&state->xof)", ["src/hash/ascon-hash.c", "src/hash/ascon-xof.c"]),
    ("ascon_hasha_free", "ascon_hasha_state_t", "ZX(&state->xof)", ["src/hash/ascon-hasha.c", "src/hash/ascon-xofa.c"]),
    ("ascon_prf_free", "ascon_prf_state_t", "ZX(state)", ["src/mac/ascon-prf.c"]),
    ("ascon_hmac_free", "ascon_hmac_state_t", "ZX(&state->hash.xof)", ["src/mac/ascon-hmac.c", "src/hash/ascon-hash.c", "src/hash/ascon-xof.c"]),
    ("ascon_hmaca_free", "ascon_hmaca_state_t", "ZX(&state->hash.xof)", ["src/mac/ascon-hmaca.c", "src/hash/ascon-hasha.c", "src/hash/ascon-xofa.c"]),
    ("ascon_kmac_free", "ascon_kmac_state_t", "ZX(&state->xof)", ["src/mac/ascon-kmac.c", "src/hash/ascon-xof.c"]),
    ("ascon_kmaca_free", "ascon_kmaca_state_t", "ZX(&state->xof)", ["src/mac/ascon-kmaca.c", "src/hash/ascon-xofa.c"]),
    ("ascon_kdf_free", "ascon_kdf_state_t", "ZX(&state->state)", ["src/kdf/ascon-kdf.c", "src/hash/ascon-xof.c"]),
    ("ascon_kdfa_free", "ascon_kdfa_state_t", "ZX(&state->state)", ["src/kdf/ascon-kdfa.c", "src/hash/ascon-xofa.c"]),
    ("ascon_hkdf_free", "ascon_hkdf_state_t", "ZB(state,sizeof(ascon_hkdf_state_t))",
     ["src/kdf/ascon-hkdf.c", "src/mac/ascon-hmac.c", "src/hash/ascon-hash.c", "src/hash/ascon-xof.c"]),
    ("ascon_hkdfa_free", "ascon_hkdfa_state_t", "ZB(state,sizeof(ascon_hkdfa_state_t))",
     ["src/kdf/ascon-hkdfa.c", "src/mac/ascon-hmaca.c", "src/hash/ascon-hasha.c", "src/hash/ascon-xofa.c"]),
    ("ascon_random_free", "ascon_random_state_t", "(ZX(&state->xof) && state->counter == 0)",
     ["src/random/ascon-prng.c", "src/hash/ascon-xof.c"]),
    ("ascon128a_isap_aead_free", "ascon128a_isap_aead_key_t", "(ZB(&state->ke,40) && ZB(&state->ka,40))", ["src/isap/ascon-isap-128a.c", "src/aead/ascon-aead-common.c"]),
    ("ascon128_isap_aead_free", "ascon128_isap_aead_key_t", "(ZB(&state->ke,40) && ZB(&state->ka,40))", ["src/isap/ascon-isap-128.c", "src/aead/ascon-aead-common.c"]),
    ("ascon80pq_isap_aead_free", "ascon80pq_isap_aead_key_t", "(ZB(&state->ke,40) && ZB(&state->ka,40))", ["src/isap/ascon-isap-80pq.c", "src/aead/ascon-aead-common.c"]),
    ("ascon_masked_key_128_free", "ascon_masked_key_128_t", "ZB(state,sizeof(ascon_masked_key_128_t))", ["src/masking/ascon-masked-key.c"]),
    ("ascon_masked_key_160_free", "ascon_masked_key_160_t", "ZB(state,sizeof(ascon_masked_key_160_t))", ["src/masking/ascon-masked-key.c"]),
    ("ascon_masked_state_free", "ascon_masked_state_t", "ZB(state,sizeof(ascon_masked_state_t))", ["src/masking/ascon-masked-state.c"]),
]


def free_groups(prefix, props, cfg="C64", tier="quick"):
    gs = []
    for f, T, expr, srcs in FREE_TABLE:
        masked = "masked" in f
        gs.append(Group("%s.%s.%s" % (prefix, f, cfg), props, "harness/h_free.c", "h_free",
                        srcs + [BACKEND_SRC[cfg], CLEAN], cfg=cfg, enforce=f,
                        defs=["VERIF_FN=" + f, "VERIF_T=" + T, "VERIF_ZERO_EXPR=" + expr] + (["VERIF_FREE_MASKED"] if masked else []),
                        contracts=["contracts/c_free.h"], drop_unused=True, unwind=260, timeout=900,
                        expect_classes=["postcondition", "assigns"]))
    n = 64 if tier == "quick" else 256    # (1024 exhausted the solver memory)
    gs.append(Group("%s.ascon_clean.fallback%d" % (prefix, n), props, "harness/h_free.c", "h_free", [CLEAN], cfg=cfg,
                    enforce="ascon_clean", defs=["VERIF_FREE_CLEAN", "VERIF_CLEAN_MAX=%d" % n], contracts=["contracts/c_free.h"],
                    unwind=n + 2, kind="bounded", timeout=1800,
                    bound="size <= %d, portable volatile-pointer fallback of ascon_clean (a write loop through a moving pointer: no loop contract possible)" % n,
                    expect_classes=["postcondition", "assigns"]))
    return gs

MW_SRC = {"C64": "src/masking/ascon-masked-word-c64.c", "C32": "src/masking/ascon-masked-word-c32.c",
          "DX": "src/masking/ascon-masked-word-direct.c", "GEN": "src/masking/ascon-masked-word-direct.c",
          "DEF": "src/masking/ascon-word-asm-x86-64.S"}


def word_asm_sigs():
    """C prototypes of the masked-word functions, read from the header on every run (the lifter needs them to name
    the argument registers)."""
    import re
    h = open(os.path.join("/repo", "src/masking/ascon-masked-word.h")).read()
    sig = []
    for ret, name, args in re.findall(r'\n(void|int|uint64_t)\s+(ascon_masked_word_\w+)\s*\(([^;]*?)\);', h):
        ps = []
        for a in args.replace("\n", " ").split(","):
            a = " ".join(a.split())
            m = re.match(r'(.*?)(\w+)$', a)
            ps.append("%s %s" % (m.group(1).strip(), m.group(2)))
        sig.append("--fn=%s:%s:%s" % (name, ret, ",".join(ps)))
    return sig


def mw_src(cfg):
    """masked-word backend of a configuration: (sources, lift spec).  DEF = the x86-64 assembly toolkit, lifted."""
    if cfg == "DEF":
        return ["/verif/harness/lifted_word_asm.c"], ("src/masking/ascon-word-asm-x86-64.S", word_asm_sigs() + ["--plain"])
    return [MW_SRC[cfg]], None


def masked_word_groups(prefix, props, cfg="C64", max_shares=4):
    gs = []
    wsrc, wlift = mw_src(cfg)
    ops = ["zero", "load", "load_partial", "load_32", "store", "store_partial", "randomize", "xor", "replace"]
    for ns in range(2, max_shares + 1):
        variants = [(op, [], "") for op in ops]
        variants.append(("randomize", ["VERIF_ALIAS"], ".inplace"))
        for ms in range(2, max_shares + 1):
            if ms != ns:
                variants.append(("from", ["MS=%d" % ms], ".x%d" % ms))
                variants.append(("from", ["MS=%d" % ms, "VERIF_ALIAS"], ".x%d.inplace" % ms))
        if ns == 2:
            variants += [("pad", [], ""), ("separator", [], "")]
        for op, extra, suffix in variants:
            gs.append(Group("%s.word.x%d_%s%s.%s.max%d" % (prefix, ns, op, suffix, cfg, max_shares), props,
                            "harness/h_masked_word.c", "h_masked_word", wsrc, cfg=cfg, lift=wlift,
                            defs=["NS=%d" % ns, "OP_" + op, "ASCON_MASKED_MAX_SHARES=%d" % max_shares] + extra,
                            functions=["ascon_masked_word_x%d_%s" % (ns, op if op != "from" else "from_x%s" % extra[0][3:])],
                            unwind=10, timeout=600, must_fail=(["MUSTFAIL"] if op == "randomize" else []),
                            expect_classes=["assertion"]))
    return gs


def masked_key_groups(prefix, props, cfg="C64", key_shares=(4, 3, 2)):
    gs = []
    for bits in (128, 160):
        for ks in key_shares:
            for op in ("roundtrip", "randomize"):
                gs.append(Group("%s.key%d.%s.%s.shares%d" % (prefix, bits, op, cfg, ks), props, "harness/h_masked_key.c", "h_masked_key",
                                ["src/masking/ascon-masked-key.c"] + mw_src(cfg)[0] + [CLEAN], cfg=cfg, lift=mw_src(cfg)[1],
                                defs=["KEYBITS=%d" % bits, "OP_" + op, "ASCON_MASKED_KEY_SHARES=%d" % ks, "ASCON_MASKED_MAX_SHARES=4"] +
                                     (["ASCON_MASKED_DATA_SHARES=2"] if ks >= 2 else []),
                                functions=["ascon_masked_key_%d_%s" % (bits, "init+extract" if op == "roundtrip" else "randomize_with_trng")],
                                unwind=24, timeout=600, must_fail=(["MUSTFAIL"] if op == "randomize" else []), drop_unused=True,
                                expect_classes=["assertion"]))
    return gs


def masked_state_groups(prefix, props, cfg="C64"):
    gs = []
    for ns in (2, 3, 4):
        variants = [("randomize", [], ""), ("from_x1", [], ""), ("to_x1", [], "")]
        for ms in (2, 3, 4):
            variants.append(("from", ["MS=%d" % ms], ".x%d" % ms))
            variants.append(("from", ["MS=%d" % ms, "VERIF_ALIAS"], ".x%d.inplace" % ms))
        for op, extra, suffix in variants:
            gs.append(Group("%s.state.x%d_%s%s.%s" % (prefix, ns, op, suffix, cfg), props, "harness/h_masked_state.c", "h_masked_state",
                            ["src/masking/ascon-masked-state.c"] + mw_src(cfg)[0] + [BACKEND_SRC[cfg], CLEAN], cfg=cfg, lift=mw_src(cfg)[1],
                            defs=["NS=%d" % ns, "OP_" + op, "ASCON_MASKED_MAX_SHARES=4"] + extra,
                            functions=["ascon_x%d_%s" % (ns, "copy_" + op if op != "randomize" else op)],
                            unwind=42, timeout=600, drop_unused=True, expect_classes=["assertion"]))
    return gs


def masked_permute_groups(prefix, props, cfg="C64", shares=(2, 3, 4)):
    gs = []
    for ns in shares:
        f = "ascon_x%d_permute" % ns
        for stg in ("A", "B"):
            gs.append(Group("%s.permute.x%d.%s.stage%s" % (prefix, ns, cfg, stg), props, "harness/h_masked_permute.c", "h_masked_permute",
                            ["src/masking/ascon-x%d-c64.c" % ns], cfg=cfg, enforce=f if stg == "B" else None,
                            defs=["NS=%d" % ns, "VERIF_FN=" + f, "VERIF_STAGE_" + stg, "VERIF_LC_permute_x%d_c64" % ns,
                                  "ASCON_MASKED_MAX_SHARES=4"],
                            contracts=["contracts/c_masked_permute.h"] if stg == "B" else [], loop_contracts=True,
                            unwind_pre=["ascon_x%d_permute.%d:2" % (ns, i) for i in range(5)] + ["h_masked_permute.0:6", "h_masked_permute.1:5"],
                            functions=[f], timeout=1800,
                            expect_classes=["loop_invariant_step", "loop_invariant_base"] + (["postcondition", "assigns"] if stg == "B" else ["assertion"])))
    return gs


def prng_groups(prefix, props, cfg="C64", tier="quick"):
    gs = []
    srcs = ["src/random/ascon-prng.c", "src/random/ascon-random.c", ("src/hash/ascon-xof.c", XOF_RENAME), BACKEND_SRC[cfg], CLEAN]
    entries = [(0, 0), (5, 0), (0, 1), (3, 1)] if tier == "quick" else [(c, m) for m in (0, 1) for c in range(8)]
    ops = [("init", [(0, 0)]), ("fetch", entries), ("feed", entries), ("reseed", entries), ("random", [(0, 0)]),
           ("save", [(0, 1)]), ("save_ok", entries[:2]), ("load_ok", entries[:2])]
    for op, ents in ops:
        for c, m in ents:
            gs.append(Group("%s.%s.c%d.m%d.%s" % (prefix, op, c, m, cfg), props, "harness/h_prng.c", "h_prng", srcs, cfg=cfg,
                            defs=["VERIF_PLAIN", "OP_" + op, "VERIF_COUNT=%d" % c, "VERIF_MODE=%d" % m, "VERIF_ABSTRACT_P", "VERIF_L1_SUMMARY"],
                            functions=["ascon_random_" + op.replace("_ok", "_seed").replace("save", "save_seed") if op != "random" else "ascon_random"],
                            drop_unused=True, unwind=66, timeout=900, expect_classes=["assertion"]))
    for n in ((1, 5, 8, 13) if tier == "quick" else range(0, 20)):
        for c, m in entries[:2]:
            gs.append(Group("%s.feed_short%d.c%d.m%d.%s" % (prefix, n, c, m, cfg), props, "harness/h_prng.c", "h_prng", srcs, cfg=cfg,
                            defs=["VERIF_PLAIN", "OP_feed_short", "VERIF_N=%d" % n, "VERIF_COUNT=%d" % c, "VERIF_MODE=%d" % m,
                                  "VERIF_ABSTRACT_P", "VERIF_L1_SUMMARY"], functions=["ascon_random_feed"],
                            drop_unused=True, unwind=66, timeout=900, expect_classes=["assertion"]))
    return gs


def hkdf_groups(prefix, props, cfg="C64", tier="quick"):
    gs = []
    for v, alg, T in ((0, "hkdf", "ascon_hkdf_state_t"), (100, "hkdfa", "ascon_hkdfa_state_t")):
        base = ["VERIF_PLAIN", "HM_VARIANT=%d" % v, "HKDF_T=" + T, "HKDF_FN(s)=ascon_%s##s" % alg]
        srcs = [("src/kdf/ascon-%s.c" % alg, ["ascon_clean=verif_ghost_clean"]), CLEAN]
        def G(name, defs, unwind=100):
            gs.append(Group("%s.%s.%s.%s" % (prefix, alg, name, cfg), props, "harness/h_hkdf.c", "h_hkdf", srcs, cfg=cfg,
                            defs=base + defs, functions=["ascon_%s%s" % (alg, "" if name.startswith("oneshot") else "_" + name.split(".")[0])],
                            drop_unused=True, unwind=unwind, timeout=900, expect_classes=["assertion"]))
        G("extract", ["OP_extract"])
        posns = (0, 5, 32) if tier == "quick" else (0, 1, 5, 16, 31, 32)
        lens = (0, 1, 27, 28, 32, 33, 60, 65, 91) if tier == "quick" else tuple(range(0, 100))
        for p in posns:
            for ln in lens:
                G("expand.posn%d.len%d" % (p, ln), ["OP_expand", "VERIF_POSN=%d" % p, "VERIF_OUTLEN=%d" % ln])
        for ln in (8161, 8192, 1 << 40):       # just above the 255-block limit, the next block boundary, far above
            G("oneshot.refuse%d" % ln, ["OP_oneshot", "VERIF_OUTLEN=%dULL" % ln], unwind=40)
        for ln in (0, 5, 32, 40):
            G("oneshot.len%d" % ln, ["OP_oneshot", "VERIF_OUTLEN=%d" % ln])
    return gs


PBKDF2_GHOST = ["ascon_xof_init_custom=verif_ghost_xof_init_custom", "ascon_xof_copy=verif_ghost_xof_copy",
                "ascon_xof_free=verif_ghost_xof_free", "ascon_clean=verif_ghost_clean"]


def pbkdf2_hmac_groups(prefix, props, tier="quick"):
    """ascon_pbkdf2_hmac == RFC 8018 over abstract HMAC (plain-assertion groups, constant count / output length)"""
    gs = []
    for cnt in (0, 1, 2, 3):
        for ol in ((0, 1, 32, 33) if tier == "quick" else (0, 1, 31, 32, 33, 64, 65)):
            gs.append(Group("%s.ascon_pbkdf2_hmac.count%d.out%d" % (prefix, cnt, ol), props, "harness/h_pbkdf2_hmac.c", "h_pbkdf2_hmac",
                            ["src/password/ascon-pbkdf2-hmac.c", CLEAN, X64], defs=["VERIF_COUNT=%d" % cnt, "VERIF_OUTLEN=%d" % ol, "VERIF_PLAIN"],
                            drop_unused=True, unwind=70, timeout=600, functions=["ascon_pbkdf2_hmac"], assumed=["ascon_hmac_*"],
                            expect_classes=["assertion"]))
    return gs


def kmac_table_groups(prefix, props, cfgs=("C64", "C32", "DX")):
    """pre-computed first block of KMAC / KMACA == p^12 of the specified IV block, per state encoding (concrete)"""
    gs = []
    for cfg in cfgs:
        for sfx, d in (("", []), ("a", ["VARIANT_A"])):
            gs.append(Group("%s.ascon_kmac%s.precomputed_block.%s" % (prefix, sfx, cfg), props, "harness/h_kmac_table.c", "h_kmac_table",
                            [BACKEND_SRC[cfg], CLEAN], cfg=cfg, defs=d, drop_unused=True, unwind=45, timeout=600,
                            functions=["ascon_kmac%s_init_precomputed" % sfx], expect_classes=["assertion"]))
    return gs


def cxof_kdf_groups(prefix, props, which, cfg="C64", tier="quick"):
    """KMAC / KDF / PBKDF2 over the customised XOF (plain-assertion groups over specification stubs)."""
    gs = []
    xs = [("src/hash/ascon-xof.c", XOF_RENAME), ("src/hash/ascon-xofa.c", XOFA_RENAME)]
    def G(name, srcs, defs, unwind=70, timeout=1200):
        gs.append(Group("%s.%s.%s" % (prefix, name, cfg), props, "harness/h_cxof_kdf.c", "h_cxof_kdf",
                        srcs + xs + [BACKEND_SRC[cfg], CLEAN], cfg=cfg,
                        defs=["VERIF_PLAIN", "VERIF_ABSTRACT_P", "VERIF_L1_SUMMARY"] + defs, functions=[name.split(".")[0]],
                        drop_unused=True, unwind=unwind, timeout=timeout, expect_classes=["assertion"]))
    if "kdf" in which:
        for va, sfx in (([], ""), (["VARIANT_A"], "a")):
            for ol in ((0, 16, 40) if tier == "quick" else (0, 1, 16, 31, 32, 33, 40)):
                for al in ([], ["A_LONG"]):
                    G("ascon_kdf%s.out%d%s" % (sfx, ol, ".longkey" if al else ""), ["src/kdf/ascon-kdf%s.c" % sfx],
                      ["OP_kdf", "VERIF_OUTLEN=%d" % ol] + va + al)
    if "kmac" in which:
        for va, sfx in (([], ""), (["VARIANT_A"], "a")):
            for ol in ((16, 32, 40) if tier == "quick" else (0, 1, 16, 31, 32, 33, 40)):       # 32 is served from a pre-computed table
                for al in ([], ["A_LONG"]):
                    G("ascon_kmac%s.out%d%s" % (sfx, ol, ".longkey" if al else ""), ["src/mac/ascon-kmac%s.c" % sfx],
                      ["OP_kmac", "VERIF_OUTLEN=%d" % ol] + va + al)
    if "pbkdf2" in which:
        for cnt in (0, 1, 2, 3):
            for ol in ((0, 1, 32, 33) if tier == "quick" else (0, 1, 31, 32, 33, 64, 65)):
                for al in ([],):      # the password is absorbed inside ascon-xof.c (ascon_xof_absorb_custom) by the REAL absorb loop: constant length only
                    G("ascon_pbkdf2.count%d.out%d%s" % (cnt, ol, ".longpw" if al else ""), [("src/password/ascon-pbkdf2.c", PBKDF2_GHOST)],
                      ["OP_pbkdf2", "VERIF_COUNT=%d" % cnt, "VERIF_OUTLEN=%d" % ol] + al, unwind=70)
    return gs


MASKED_AEAD = {"128": ("SPEC_ASCON128", 16, "ascon_masked_key_128_t", "ascon_masked_key_128", 8),
               "128a": ("SPEC_ASCON128A", 16, "ascon_masked_key_128_t", "ascon_masked_key_128", 16),
               "80pq": ("SPEC_ASCON80PQ", 20, "ascon_masked_key_160_t", "ascon_masked_key_160", 8)}


MASKED_REPLAY = {"prog": "replay/r_masked.c", "srcs": ['src/aead/ascon-aead-masked-128.c', 'src/aead/ascon-aead-masked-128a.c', 'src/aead/ascon-aead-masked-80pq.c', 'src/aead/ascon-aead-masked-common.c', 'src/aead/ascon-aead-128.c', 'src/aead/ascon-aead-128a.c', 'src/aead/ascon-aead-80pq.c', 'src/aead/ascon-aead-common.c', 'src/masking/ascon-masked-word-c64.c', 'src/masking/ascon-masked-state.c', 'src/masking/ascon-masked-key.c', 'src/masking/ascon-x2-c64.c', 'src/masking/ascon-x3-c64.c', 'src/masking/ascon-x4-c64.c', 'src/core/ascon-clean.c', 'src/core/ascon-c64.c', 'src/core/ascon-sliced64.c']}


def masked_aead_groups(prefix, props, tier="quick", ops=("encrypt", "decrypt"), variants=("128", "128a", "80pq"), cfg="C64"):
    """Masked one-shot AEAD == the unmasked specification for every random tape (plain-assertion groups; the masked
    permutations are specification stubs = the contract proved in C10; everything else is the real code).
    Constant (adlen, mlen) per group: empty, partial block, exact block, block + partial, two blocks + partial."""
    gs = []
    wsrc, wlift = mw_src(cfg)
    srcs = ["src/aead/ascon-aead-masked-common.c", "src/aead/ascon-aead-common.c"] + wsrc + \
           ["src/masking/ascon-masked-state.c", "src/masking/ascon-masked-key.c", CLEAN, X64]
    shares = [("", [])]
    if tier == "thorough" and cfg == "C64":
        shares += [(".k2d2", ["ASCON_MASKED_KEY_SHARES=2", "ASCON_MASKED_DATA_SHARES=2"]),
                   (".k3d3", ["ASCON_MASKED_KEY_SHARES=3", "ASCON_MASKED_DATA_SHARES=3"]),
                   (".k4d1", ["ASCON_MASKED_KEY_SHARES=4", "ASCON_MASKED_DATA_SHARES=1"]),
                   (".k4d4", ["ASCON_MASKED_KEY_SHARES=4", "ASCON_MASKED_DATA_SHARES=4"])]
    for var in variants:
        P, kl, kt, kf, R = MASKED_AEAD[var]
        lens = [(0, 0), (R + 1, 2 * R + 1)] if tier == "quick" else [(0, 0), (1, R), (R, R - 1), (R + 1, 2 * R + 1), (2 * R, 1)]
        for op in ops:
            for sfx, sd in shares:
                for ad, ml in (lens if not sfx else lens[1:3]):
                    defs = ["VERIF_MA_PARAMS=" + P, "VERIF_MA_KEYLEN=%d" % kl, "VERIF_MA_KEYT=" + kt, "VERIF_MA_KEYINIT=%s_init" % kf,
                            "VERIF_MA_KEYRAND=%s_randomize" % kf, "VERIF_MA_FN=ascon%s_masked_aead_%s" % (var, op),
                            "VERIF_ADLEN=%d" % ad, "VERIF_MLEN=%d" % ml, "VERIF_ABSTRACT_P"] + (["VERIF_MA_ENCRYPT"] if op == "encrypt" else []) + sd
                    if cfg != "C64" and (ad, ml) == (0, 0):
                        continue
                    gs.append(Group("%s.masked.ascon%s_masked_aead_%s%s.ad%d.m%d%s" % (prefix, var, op, sfx, ad, ml, "" if cfg == "C64" else "." + cfg), props,
                                    "harness/h_masked_aead.c", "h_masked_aead", ["src/aead/ascon-aead-masked-%s.c" % var] + srcs,
                                    cfg=cfg, lift=wlift, defs=defs, drop_unused=True, unwind=200, timeout=900,
                                    functions=["ascon%s_masked_aead_%s" % (var, op), "ascon_masked_aead_absorb_%d" % R,
                                               "ascon_masked_aead_%s_%d" % (op, R), "%s_init" % kf],
                                    assumed=["ascon_x2_permute", "ascon_x3_permute", "ascon_x4_permute", "ascon_trng_generate_64"],
                                    expect_classes=["assertion"], replay=MASKED_REPLAY if cfg == "C64" and not sfx else None))
    return gs


def masked_asm_permute_groups(prefix, props, tier="quick", seed=0, layouts=(4,)):
    """x86-64 assembly masked permutations (default masked backend on this host), lifted on every run: one group per
    (share count, first_round): round lemma for that round from an arbitrary sharing + plumbing to the exit.
    layouts: values of ASCON_MASKED_MAX_SHARES (the .S files carry one variant of the code per word layout)."""
    gs = []
    for maxs in layouts:
        for n in (2, 3, 4):
            if n > maxs:
                continue
            rounds = list(range(0, 13)) + [13, 255]
            if tier == "quick":     # x2: every round; x3 / x4: a seed-rotated sample plus the exit case (the thorough tier runs all)
                if n == 3:
                    rounds = [seed % 12, (seed + 5) % 12, 12]
                if n == 4:
                    rounds = [(seed + 3) % 12, 12]
            if maxs != 4:           # the other layouts: same instruction stream with other offsets; a third of the rounds
                rounds = [r for r in rounds if r % 3 == seed % 3 or r >= 12]
            sig = ["--fn=ascon_x%d_permute:void:ascon_masked_state_t * state,uint8_t first_round,uint64_t * preserve" % n]
            for r in rounds:
                gs.append(Group("%s.permute.x%d.x86_64_asm%s.round%d" % (prefix, n, "" if maxs == 4 else ".max%d" % maxs, r), props,
                                "harness/h_masked_permute_asm.c", "h_masked_permute_asm", [], cfg="DEF",
                                defs=["VERIF_SHARES=%d" % n, "VERIF_FIRST=%d" % r, "VERIF_FN=ascon_x%d_permute" % n] +
                                     (["ASCON_MASKED_MAX_SHARES=%d" % maxs] if maxs != 4 else []),
                                lift=("src/masking/ascon-x%d-asm-x86-64.S" % n, sig), unwind=14, timeout=2400,
                                functions=["ascon_x%d_permute (x86-64 assembly, lifted)" % n], expect_classes=["assertion"],
                                note="round loop (<= 12 iterations) completely unwound with unwinding assertion; cut at the loop condition label"))
                if n >= 3:
                    gs[-1].reach = False      # vacuity of this harness is established by the x2 groups (an x4 reach pass costs 10 min)
    return gs


SIV_VARS = {"128": ("SPEC_ASCON128", 16, 8), "128a": ("SPEC_ASCON128A", 16, 16), "80pq": ("SPEC_ASCON80PQ", 20, 8)}
ISAP_VARS = {"128a": ("SPEC_ISAP_128A", 16), "128": ("SPEC_ISAP_128", 16), "80pq": ("SPEC_ISAP_80PQ", 20)}


MODES_REPLAY_SRCS = ["src/siv/ascon-siv-128.c", "src/siv/ascon-siv-128a.c", "src/siv/ascon-siv-80pq.c", "src/isap/ascon-isap-128.c",
                     "src/isap/ascon-isap-128a.c", "src/isap/ascon-isap-80pq.c", "src/aead/ascon-aead-common.c", "src/core/ascon-clean.c",
                     "src/core/ascon-c64.c", "src/core/ascon-sliced64.c"]


def modes_replay(which):
    return {"prog": "replay/r_modes.c", "srcs": MODES_REPLAY_SRCS, "args": [which]}


def mode_lens(R, tier):
    """(adlen, mlen) pairs around the block boundaries of rate R"""
    if tier == "quick":
        return [(0, 0), (R + 1, 2 * R + 1), (R, R - 1)]
    return [(0, 0), (0, 1), (1, 0), (1, R), (R, R - 1), (R - 1, R + 1), (R + 1, 2 * R + 1), (2 * R, 2 * R), (2 * R + 1, 3 * R - 1)]


def siv_groups(prefix, props, tier="quick", ops=("encrypt", "decrypt")):
    """ASCON-SIV one-shot functions == the documented two-pass construction (plain-assertion groups, abstract permutation)."""
    gs = []
    for var, (P, kl, R) in SIV_VARS.items():
        for op in ops:
            for ad, ml in mode_lens(R, tier):
                gs.append(Group("%s.siv.ascon%s_siv_%s.ad%d.m%d" % (prefix, var, op, ad, ml), props, "harness/h_siv.c", "h_siv",
                                ["src/siv/ascon-siv-%s.c" % var, AEAD_COMMON, X64, CLEAN],
                                defs=["VERIF_SIV_PARAMS=" + P, "VERIF_SIV_KEYLEN=%d" % kl, "VERIF_SIV_FN=ascon%s_siv_%s" % (var, op),
                                      "VERIF_ADLEN=%d" % ad, "VERIF_MLEN=%d" % ml, "VERIF_ABSTRACT_P", "VERIF_PLAIN"] +
                                     (["VERIF_SIV_ENCRYPT"] if op == "encrypt" else []),
                                drop_unused=True, unwind=70, timeout=900, functions=["ascon%s_siv_%s" % (var, op)],
                                assumed=["ascon_permute"], expect_classes=["assertion"], replay=modes_replay("siv")))
    return gs


def isap_groups(prefix, props, tier="quick", ops=("encrypt", "decrypt")):
    """ISAP one-shot functions == ISAP v2.0 for any permutation (plain-assertion groups, logged-oracle permutation)."""
    gs = []
    for var, (P, kl) in ISAP_VARS.items():
        for op in ops:
            lens = mode_lens(8, tier)
            if tier == "quick":
                lens = lens[1:] if var == "128a" else lens[1:2]
            for ad, ml in lens:
                gs.append(Group("%s.isap.ascon%s_isap_aead_%s.ad%d.m%d" % (prefix, var, op, ad, ml), props, "harness/h_isap.c", "h_isap",
                                ["src/isap/ascon-isap-%s.c" % var, AEAD_COMMON, X64, CLEAN],
                                defs=["VERIF_ISAP_PARAMS=" + P, "VERIF_ISAP_KEYLEN=%d" % kl, "VERIF_ISAP_KEYT=ascon%s_isap_aead_key_t" % var,
                                      "VERIF_ISAP_FN(x)=ascon%s_isap_aead##x" % var, "VERIF_ADLEN=%d" % ad, "VERIF_MLEN=%d" % ml, "VERIF_PLAIN"] +
                                     (["VERIF_ISAP_ENCRYPT"] if op == "encrypt" else []),
                                drop_unused=True, unwind=170, timeout=1500,
                                functions=["ascon%s_isap_aead_init" % var, "ascon%s_isap_aead_%s" % (var, op)],
                                assumed=["ascon_permute"], expect_classes=["assertion"], replay=modes_replay("isap")))
    return gs
