"""Shared group builders."""
from driver import Group

BACKEND_SRC = {"C64": "src/core/ascon-sliced64.c", "DEF": "src/core/ascon-sliced64.c",
               "C32": "src/core/ascon-sliced32.c", "DX": "src/core/ascon-direct-xor.c", "GEN": "src/core/ascon-direct-xor.c"}

AEAD_COMMON = "src/aead/ascon-aead-common.c"


def absorb_groups(prefix, props, cfg="C64"):
    """L1 ascon_aead_absorb_8/16: loop contract, every length up to 2^40."""
    gs = []
    for R in (8, 16):
        f = "ascon_aead_absorb_%d" % R
        pre = ["ascon_add_bytes.0:%d" % (R + 1), "spec_absorb_run.0:%d" % (R + 1)]
        if cfg in ("DX", "GEN"):
            pre = None   # different inner loops; not set up
        gs.append(Group("%s.l1.%s.%s" % (prefix, f, cfg), props, "harness/h_aead_l1.c", "h_aead_l1",
                        [AEAD_COMMON, BACKEND_SRC[cfg]], cfg=cfg, enforce=f, replace=["ascon_permute"],
                        defs=["VERIF_ENFORCE_" + f, "VERIF_CALL_" + f, "VERIF_LC_aead_absorb_%d" % R, "VERIF_ABSTRACT_P"],
                        contracts=["contracts/c_permute_abstract.h", "contracts/c_aead_l1.h"],
                        loop_contracts=True, drop_unused=True, unwind_pre=pre, timeout=1500, replay=aead_replay(cfg),
                        expect_classes=["loop_invariant_step", "loop_invariant_base", "assertion", "assigns"]))
    return gs


def crypt_lens(R, p, tier):
    """lengths for the step proof of the write loops: everything below 2*rate in
    the thorough tier; in the quick tier the lengths that hit each code region
    boundary for entry position p"""
    if tier == "thorough":
        return list(range(0, 2 * R))
    t = R - p if p else 0
    s = {0, 1, t, t + 1, t + R, t + R + 1, 2 * R - 1, R, R - 1}
    return sorted(x for x in s if 0 <= x < 2 * R)


def crypt_groups(prefix, props, fn, tier, cfg="C64", seed=0, plumbing=False):
    """L1 ascon_aead_{encrypt,decrypt}_{8,16}: step proof from an arbitrary state,
    one (entry position, length) pair per group, both constants."""
    gs = []
    for R in (8, 16):
        f = "ascon_aead_%s_%d" % (fn, R)
        if tier == "thorough":
            ps = list(range(R))
        else:
            ps = sorted({0, 1, R // 2, R - 1, 2 + (seed % (R - 3))})
        for alias in (False, True):
            for p in ps:
                for ln in crypt_lens(R, p, tier):
                    gs.append(Group("%s.l1.%s%s.%s.p%d.len%d" % (prefix, f, ".alias" if alias else "", cfg, p, ln), props,
                                    "harness/h_aead_crypt.c", "h_aead_crypt", [AEAD_COMMON, BACKEND_SRC[cfg]], cfg=cfg,
                                    enforce=f, replace=["ascon_permute"],
                                    defs=["VERIF_ENFORCE_" + f, "VERIF_FN=" + f, "VERIF_RATE=%d" % R, "VERIF_LEN_BOUND=%d" % (4 * R),
                                          "VERIF_ABSTRACT_P", "VERIF_PARTIAL=%d" % p, "VERIF_LEN=%d" % ln] +
                                         (["VERIF_DECRYPT"] if fn == "decrypt" else []) + (["VERIF_ALIAS"] if alias else []),
                                    contracts=["contracts/c_permute_abstract.h", "contracts/c_aead_crypt.h"],
                                    drop_unused=True, unwind=4 * R + 2, timeout=600, replay=aead_replay(cfg),
                                    expect_classes=["postcondition", "assigns"]))
    return gs

AEAD_VARIANTS = {
    "128": ("SPEC_ASCON128", 16, 8, 6, "src/aead/ascon-aead-128.c"),
    "128a": ("SPEC_ASCON128A", 16, 16, 4, "src/aead/ascon-aead-128a.c"),
    "80pq": ("SPEC_ASCON80PQ", 20, 8, 6, "src/aead/ascon-aead-80pq.c"),
}

AEAD_REPLAY_SRCS = ["src/aead/ascon-aead-128.c", "src/aead/ascon-aead-128a.c", "src/aead/ascon-aead-80pq.c",
                    "src/aead/ascon-aead-common.c", "src/aead/ascon-aead-inc-128.c", "src/aead/ascon-aead-inc-128a.c",
                    "src/aead/ascon-aead-inc-80pq.c", "src/aead/ascon-aead-util.c", "src/core/ascon-clean.c"]
PERM_SRC = {"C64": ["src/core/ascon-c64.c", "src/core/ascon-sliced64.c"], "C32": ["src/core/ascon-c32.c", "src/core/ascon-sliced32.c"],
            "DX": ["src/core/ascon-c64.c", "src/core/ascon-direct-xor.c"], "GEN": ["src/core/ascon-c64.c", "src/core/ascon-direct-xor.c"]}


def aead_replay(cfg="C64"):
    return {"prog": "replay/r_aead.c", "srcs": AEAD_REPLAY_SRCS + PERM_SRC[cfg]}


def aead_l2_groups(prefix, props, op, cfg="C64", alias_variants=("128",)):
    """L2 one-shot ascon{128,128a,80pq}_aead_{encrypt,decrypt}: every length < 2^40."""
    gs = []
    for var, (params, keylen, rate, rnd, src) in AEAD_VARIANTS.items():
        f = "ascon%s_aead_%s" % (var, op)
        for alias in ([False, True] if var in alias_variants else [False]):
            gs.append(Group("%s.l2.%s%s.%s" % (prefix, f, ".inplace" if alias else "", cfg), props,
                            "harness/h_aead_l2.c", "h_aead_l2", [src, BACKEND_SRC[cfg], "src/core/ascon-clean.c"], cfg=cfg,
                            enforce=f,
                            replace=["ascon_permute", "ascon_aead_absorb_%d" % rate, "ascon_aead_%s_%d" % (op, rate)] +
                                    (["ascon_aead_check_tag"] if op == "decrypt" else []),
                            defs=["VERIF_L2_FN=" + f, "VERIF_L2_" + op.upper(), "VERIF_L2_PARAMS=" + params,
                                  "VERIF_L2_KEYLEN=%d" % keylen, "VERIF_L2_RATE=%d" % rate, "VERIF_L2_ROUND=%d" % rnd,
                                  "VERIF_ABSTRACT_P", "VERIF_L1_SUMMARY"] + (["VERIF_ALIAS"] if alias else []),
                            contracts=["contracts/c_permute_abstract.h", "contracts/c_aead_l2.h"],
                            drop_unused=True, unwind=42, timeout=1200, replay=aead_replay(cfg),
                            expect_classes=["postcondition", "assigns", "precondition"]))
    return gs


def check_tag_groups(prefix, props, tier, cfg="C64"):
    gs = []
    n = 64 if tier == "quick" else 512
    gs.append(Group("%s.l1.ascon_aead_check_tag.result" % prefix, props, "harness/h_check_tag.c", "h_check_tag",
                    [AEAD_COMMON], cfg=cfg, enforce="ascon_aead_check_tag", defs=["VERIF_MAXLEN=0"],
                    contracts=["contracts/c_check_tag.h"], drop_unused=True,
                    unwindset=["ascon_aead_check_tag.0:17", "ascon_aead_check_tag.1:1"],
                    replay=aead_replay(cfg), expect_classes=["postcondition", "assigns"],
                    note="exact result for every pair of 16-byte tags (complete: the comparison loop has 16 iterations)"))
    gs.append(Group("%s.l1.ascon_aead_check_tag.wipe%d" % (prefix, n), props, "harness/h_check_tag.c", "h_check_tag",
                    [AEAD_COMMON], cfg=cfg, enforce="ascon_aead_check_tag", defs=["VERIF_MAXLEN=%d" % n],
                    contracts=["contracts/c_check_tag.h"], drop_unused=True, kind="bounded",
                    bound="plaintext_len <= %d (the wipe loop writes through a moving pointer: no loop contract possible, DESIGN 2.9)" % n,
                    unwindset=["ascon_aead_check_tag.0:17", "ascon_aead_check_tag.1:%d" % (n + 1)],
                    replay=aead_replay(cfg), expect_classes=["postcondition", "assigns"], timeout=1800))
    return gs

INC_SRC = {"128": "src/aead/ascon-aead-inc-128.c", "128a": "src/aead/ascon-aead-inc-128a.c", "80pq": "src/aead/ascon-aead-inc-80pq.c"}
INC_OPS = ("init", "reinit", "start", "encrypt_block", "encrypt_finalize", "decrypt_block", "decrypt_finalize")


def aead_inc_groups(prefix, props, ops=INC_OPS, cfg="C64", alias=True):
    """L2 contracts of the incremental AEAD API from an arbitrary session object."""
    gs = []
    for var, (params, keylen, rate, rnd, _src) in AEAD_VARIANTS.items():
        for op in ops:
            f = "ascon%s_aead_%s" % (var, op)
            variants = [False, True] if (alias and op.endswith("_block")) else [False]
            for al in variants:
                repl = ["ascon_permute"]
                defs = ["VERIF_FN=" + f, "VERIF_INC_" + op, "VERIF_T=ascon%s_state_t" % var, "VERIF_PARAMS=" + params,
                        "VERIF_KEYLEN=%d" % keylen, "VERIF_RATE=%d" % rate, "VERIF_ROUND=%d" % rnd,
                        "VERIF_ABSTRACT_P", "VERIF_L1_SUMMARY"] + (["VERIF_ALIAS"] if al else [])
                srcs = [INC_SRC[var], BACKEND_SRC[cfg], "src/core/ascon-clean.c"]
                if op == "start":
                    repl.append("ascon_aead_absorb_%d" % rate)
                    srcs.append("src/aead/ascon-aead-util.c")
                if op == "encrypt_block":
                    repl.append("ascon_aead_encrypt_%d" % rate)
                    defs.append("VERIF_CRYPT_TAG=%du" % (3 if rate == 8 else 4))
                if op == "decrypt_block":
                    repl.append("ascon_aead_decrypt_%d" % rate)
                    defs.append("VERIF_CRYPT_TAG=%du" % (5 if rate == 8 else 6))
                if op == "decrypt_finalize":
                    srcs.append(AEAD_COMMON)   # the real ascon_aead_check_tag, inlined (16 iterations, null plaintext)
                gs.append(Group("%s.l2.%s%s.%s" % (prefix, f, ".inplace" if al else "", cfg), props,
                                "harness/h_aead_inc.c", "h_aead_inc", srcs, cfg=cfg, enforce=f, replace=repl, defs=defs,
                                contracts=["contracts/c_permute_abstract.h", "contracts/c_aead_inc.h"],
                                drop_unused=True, unwind=42, timeout=900, replay=aead_replay(cfg),
                                expect_classes=["postcondition", "assigns"]))
    return gs
