"""C13 - freed, cleared and destroyed objects retain nothing derived from secrets."""
from props import common

LEVEL = "proof"
EXPLANATION = (
    "Every C free/clear function is enforced, from an ARBITRARY object (any contents, i.e. any history of operations), "
    "against 'every named field of the object is zero afterwards' (a constant is independent of every secret) with the "
    "frame 'only this object': ascon_free, ascon128/128a/80pq_aead_free, ascon_xof(a)_free, ascon_hash(a)_free, "
    "ascon_prf_free, ascon_hmac(a)_free, ascon_kmac(a)_free, ascon_kdf(a)_free, ascon_hkdf(a)_free, ascon_random_free, "
    "the three ISAP key free functions, ascon_masked_key_128/160_free and ascon_masked_state_free. ascon_clean is "
    "inlined in its portable volatile-pointer form (the configuration without HAVE_EXPLICIT_BZERO); its own contract "
    "is checked for bounded sizes."
)
ASSUMPTIONS = [
    "source-level technique: that the optimising compiler keeps the wipe (explicit_bzero / volatile stores) at -O3 cannot be decided by a contract on the C source",
    "builds with HAVE_EXPLICIT_BZERO / memset_s call libc instead of the verified fallback loop: that libc call is trusted to zero exactly [buf, buf+size)",
    "C++ clear()/destructors are not covered (CBMC's C++ front end cannot parse this repository's C++)",
    "padding bytes after count/mode in the sponge-style structs are not written by the library and are not checked",
    "stack temporaries of the one-shot functions (tag, preserve, word) are outside this check",
]


def groups(tier):
    return common.free_groups("c13", ["C13"], tier=tier)
