"""C13 - freed, cleared and destroyed objects retain nothing derived from secrets."""
from props import common

LEVEL = "proof"
EXPLANATION = (
    "Every C free/clear function is enforced, from an ARBITRARY object (any contents, i.e. any history of operations), "
    "against 'every named field of the object is zero afterwards' (a constant is independent of every secret) with the "
    "frame 'only this object': ascon_free, ascon128/128a/80pq_aead_free, ascon_xof(a)_free, ascon_hash(a)_free, "
    "ascon_prf_free, ascon_hmac(a)_free, ascon_kmac(a)_free, ascon_kdf(a)_free, ascon_hkdf(a)_free, ascon_random_free, "
    "the three ISAP key free functions, ascon_masked_key_128/160_free and ascon_masked_state_free. ascon_clean is "
    "inlined in its portable volatile-pointer form (the configuration without HAVE_EXPLICIT_BZERO); its own contract "
    "is checked for bounded sizes. Stack temporaries of two one-shot functions are followed by ghost wrappers (the callers' "
    "calls to ascon_xof_init_custom/copy/free and ascon_clean are routed through counting wrappers at compile time): "
    "ascon_pbkdf2 frees every XOF state that absorbed the password on every path and wipes U/T whole with ascon_clean; the "
    "HKDF/HKDFA one-shot wipes its whole state object with ascon_clean (a plain memset, which the optimiser may drop, fails)."
)
ASSUMPTIONS = [
    "source-level technique: that the optimising compiler keeps the wipe (explicit_bzero / volatile stores) at -O3 cannot be decided by a contract on the C source",
    "builds with HAVE_EXPLICIT_BZERO / memset_s call libc instead of the verified fallback loop: that libc call is trusted to zero exactly [buf, buf+size)",
    "C++ clear()/destructors are not covered (CBMC's C++ front end cannot parse this repository's C++)",
    "padding bytes after count/mode in the sponge-style structs are not written by the library and are not checked",
    "stack temporaries of the other one-shot functions (AEAD tag/state, masked word/preserve, SIV, PRF short) are outside this check",
]


def groups(tier):
    gs = common.free_groups("c13", ["C13"], tier=tier)
    for g in common.cxof_kdf_groups("c13.tmp", ["C13"], ("pbkdf2",), tier=tier):
        if any(k in g.name for k in ("count0.out32", "count1.out33", "count2.out1.", "count3.out33")):
            gs.append(g)
    gs += [g for g in common.hkdf_groups("c13.tmp", ["C13"], tier="quick") if ".oneshot.len" in g.name and ("len32" in g.name or "len40" in g.name)]
    return gs
