/* C06 (ISAP part): ascon128a/128/80pq_isap_aead_init + _encrypt/_decrypt against the ISAP v2.0 reference
 * (spec/spec_isap.h) for every key, nonce, AD and message content at the constant lengths of the group, for ANY
 * 320-bit permutation: the permutation is a LOGGED ORACLE - the reference runs first and the k-th call gets a fresh
 * arbitrary result, recorded with its argument; the k-th call of the real code must then have the same argument and
 * round count (asserted) and receives the recorded result.  If every such assertion holds, code and reference make
 * the same calls for whatever the permutation computes (induction over k), so the outputs agree for every
 * permutation, in particular ascon_permute == ref_permute (C08).  (Uninterpreted functions would need a quadratic
 * number of congruence constraints for the ~300 one-round calls of the bit-serial re-keying.)
 * Real code: the whole ISAP translation unit, state byte operations, ascon_aead_check_tag, ascon_clean.
 * Also asserted: the pre-computed key object is bit-for-bit unchanged by encrypt/decrypt. */
#include <ascon/isap.h>
#include "verif_harness.h"
#include "verif_canon.h"
#include "spec_sponge.h"

#define NLOG 420
static spec_state log_arg[NLOG], log_res[NLOG];
static unsigned log_r[NLOG], nlog, ncode, log_bad;
static spec_state oracle(spec_state s, unsigned r)
{
    spec_state res; unsigned k = nlog++;
    res.x[0] = nondet_u64(); res.x[1] = nondet_u64(); res.x[2] = nondet_u64(); res.x[3] = nondet_u64(); res.x[4] = nondet_u64();
    if (k < NLOG) { log_arg[k] = s; log_r[k] = r; log_res[k] = res; } else log_bad = 1;
    return res;
}
#define SPEC_PERM(s, r) oracle((s), (r))
#include "spec_isap.h"

void ascon_permute(ascon_state_t *state, uint8_t first_round)
{
    unsigned k = ncode++;
    spec_state s = verif_canon(state);
    __CPROVER_assert(k < nlog && k < NLOG, "the code makes no more permutation calls than the ISAP reference");
    __CPROVER_assert(s.x[0] == log_arg[k].x[0] && s.x[1] == log_arg[k].x[1] && s.x[2] == log_arg[k].x[2] && s.x[3] == log_arg[k].x[3] &&
                     s.x[4] == log_arg[k].x[4] && first_round == log_r[k],
                     "the k-th permutation call of the code has the state and round count of the k-th call of the ISAP v2.0 reference");
    verif_set_canon(state, log_res[k]);
}

#ifndef VERIF_ADLEN
#define VERIF_ADLEN 0
#endif
#ifndef VERIF_MLEN
#define VERIF_MLEN 0
#endif

void h_isap(void)
{
    const spec_isap_params *pa = &VERIF_ISAP_PARAMS;
    unsigned char key[VERIF_ISAP_KEYLEN], npub[16], ad[VERIF_ADLEN + 1], tag[16];
    VERIF_ISAP_KEYT pk, pk0;
    spec_state ke0, ka0;
    size_t i, outlen = 12345;
    nlog = 0; ncode = 0; log_bad = 0;
    for (i = 0; i < VERIF_ISAP_KEYLEN; ++i) key[i] = nondet_u8();
    for (i = 0; i < 16; ++i) npub[i] = nondet_u8();
    for (i = 0; i < VERIF_ADLEN; ++i) ad[i] = nondet_u8();
    ke0 = spec_isap_rk0(pa, key, 3);
    ka0 = spec_isap_rk0(pa, key, 2);
#if defined(VERIF_ISAP_ENCRYPT)
    {
        unsigned char m[VERIF_MLEN + 1], c[VERIF_MLEN + 16], ec[VERIF_MLEN + 1];
        for (i = 0; i < VERIF_MLEN; ++i) m[i] = nondet_u8();
        spec_isap_enc(pa, ke0, npub, m, ec, VERIF_MLEN);
        spec_isap_mac(pa, ka0, npub, ad, VERIF_ADLEN, ec, VERIF_MLEN, tag);
        VERIF_ISAP_FN(_init)(&pk, key);
        pk0 = pk;
        VERIF_ISAP_FN(_encrypt)(c, &outlen, m, VERIF_MLEN, VERIF_ADLEN ? (const unsigned char *)ad : (const unsigned char *)0, VERIF_ADLEN, npub, &pk);
        __CPROVER_assert(outlen == VERIF_MLEN + 16, "ISAP encrypt: *clen == mlen + 16");
        for (i = 0; i < VERIF_MLEN; ++i) __CPROVER_assert(c[i] == ec[i], "ISAP encrypt: ciphertext = ISAP_ENC(K, N, M)");
        for (i = 0; i < 16; ++i) __CPROVER_assert(c[VERIF_MLEN + i] == tag[i], "ISAP encrypt: tag = ISAP_MAC(K, N, A, C)");
    }
#else
    {
        unsigned char c[VERIF_MLEN + 16], m[VERIF_MLEN + 1], em[VERIF_MLEN + 1]; int r, eq = 1;
        for (i = 0; i < VERIF_MLEN + 16; ++i) c[i] = nondet_u8();
        spec_isap_mac(pa, ka0, npub, ad, VERIF_ADLEN, c, VERIF_MLEN, tag);
        spec_isap_enc(pa, ke0, npub, c, em, VERIF_MLEN);
        for (i = 0; i < 16; ++i) if (c[VERIF_MLEN + i] != tag[i]) eq = 0;
        VERIF_ISAP_FN(_init)(&pk, key);
        pk0 = pk;
        r = VERIF_ISAP_FN(_decrypt)(m, &outlen, c, VERIF_MLEN + 16, VERIF_ADLEN ? (const unsigned char *)ad : (const unsigned char *)0, VERIF_ADLEN, npub, &pk);
        __CPROVER_assert(r == (eq ? 0 : -1), "ISAP decrypt: 0 exactly when the received tag equals ISAP_MAC(K, N, A, C), -1 otherwise");
        __CPROVER_assert(outlen == VERIF_MLEN, "ISAP decrypt: *mlen == clen - 16");
        for (i = 0; i < VERIF_MLEN; ++i) __CPROVER_assert(m[i] == (eq ? em[i] : 0), "ISAP decrypt: plaintext = ISAP_ENC(K, N, C); zeroed on failure");
    }
#endif
    __CPROVER_assert(!log_bad && ncode == nlog, "code and reference make the same number of permutation calls");
    {
        const unsigned char *a = (const unsigned char *)&pk, *b = (const unsigned char *)&pk0; int same = 1;
        for (i = 0; i < sizeof(pk); ++i) if (a[i] != b[i]) same = 0;
        __CPROVER_assert(same, "the pre-computed key is not modified by encrypting or decrypting with it");
    }
    VERIF_REACH_POINT("h_isap end");
}
