/* C08/C09: the x86-64 assembly ascon_permute (the backend of the default build on this platform), lifted to C
 * instruction by instruction by tools/lift_x86_64.py on every run (VERIF_LIFTED names the generated file).
 * Contract enforced (contracts/c_permute_enforce.h): canon(state) == T[r] on entry, canon(state') == T[12],
 * frame = *state; the harness defines T[k+1] = ref_round(T[k], k) for k >= r, so T[12] ==
 * ref_permute(canon(state), r).  Start rounds 0..255 (r >= 12: no rounds).  The cut obligations are in
 * include/ghost_asm.h. */
#include <ascon/permutation.h>
#include "verif_canon.h"
#include "ascon-verif-ghost.h"
#include "verif_harness.h"
#if defined(VERIF_GHOST_HEADER)
#include VERIF_GHOST_HEADER      /* other architectures: ghost_asm_riscv.h, ... */
#else
#include "ghost_asm.h"
#endif

spec_state verif_T0, verif_T1, verif_T2, verif_T3, verif_T4, verif_T5, verif_T6,
    verif_T7, verif_T8, verif_T9, verif_T10, verif_T11, verif_T12;
unsigned verif_kk, verif_r0;
spec_state verif_A_pre, verif_A_post;


#include VERIF_LIFTED

static spec_state any_state(void)
{
    spec_state any;
    any.x[0] = nondet_u64(); any.x[1] = nondet_u64(); any.x[2] = nondet_u64();
    any.x[3] = nondet_u64(); any.x[4] = nondet_u64();
    return any;
}

void h_permute_asm(void)
{
    ascon_state_t *st;
    uint8_t r = nondet_u8();
    unsigned r0 = VERIF_IDX(r);
#if defined(VERIF_FIRST)
    __CPROVER_assume(r == VERIF_FIRST);       /* one group per start round (loop-shaped backends) */
#endif
#if defined(VERIF_BACKEND_FREE)
    ascon_backend_free(st);
#else
    verif_T0 = any_state(); verif_T1 = any_state(); verif_T2 = any_state(); verif_T3 = any_state();
    verif_T4 = any_state(); verif_T5 = any_state(); verif_T6 = any_state(); verif_T7 = any_state();
    verif_T8 = any_state(); verif_T9 = any_state(); verif_T10 = any_state(); verif_T11 = any_state();
    verif_T12 = any_state();
    /* the reference trajectory from round r on (T[r] itself is tied to canon(state) by the requires clause) */
    if (r0 <= 0) verif_T1 = ref_round(verif_T0, 0);
    if (r0 <= 1) verif_T2 = ref_round(verif_T1, 1);
    if (r0 <= 2) verif_T3 = ref_round(verif_T2, 2);
    if (r0 <= 3) verif_T4 = ref_round(verif_T3, 3);
    if (r0 <= 4) verif_T5 = ref_round(verif_T4, 4);
    if (r0 <= 5) verif_T6 = ref_round(verif_T5, 5);
    if (r0 <= 6) verif_T7 = ref_round(verif_T6, 6);
    if (r0 <= 7) verif_T8 = ref_round(verif_T7, 7);
    if (r0 <= 8) verif_T9 = ref_round(verif_T8, 8);
    if (r0 <= 9) verif_T10 = ref_round(verif_T9, 9);
    if (r0 <= 10) verif_T11 = ref_round(verif_T10, 10);
    if (r0 <= 11) verif_T12 = ref_round(verif_T11, 11);
    ascon_permute(st, r);
#endif
    VERIF_REACH_POINT("h_permute_asm end");
}
