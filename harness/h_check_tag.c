#include <stddef.h>
#include "verif_harness.h"
int ascon_aead_check_tag(unsigned char *plaintext, size_t plaintext_len,
                         const unsigned char *tag1, const unsigned char *tag2, size_t size);
size_t verif_i;
unsigned char verif_snap;
void h_check_tag(void)
{
    unsigned char *p; const unsigned char *t1, *t2;
    size_t len = nondet_size(), size = nondet_size();
    verif_i = nondet_size();
    verif_snap = nondet_u8();
    ascon_aead_check_tag(p, len, t1, t2, size);
    VERIF_REACH_POINT("h_check_tag end");
}
