/* C10: masked permutations against the reference permutation on the unmasked
 * value (see include/ghost_permute.h for the stage A / stage B split). */
#include <ascon/masking.h>
#include "masking/ascon-masked-state.h"
#include "ascon-verif-ghost.h"
#include "verif_harness.h"

spec_state verif_T0, verif_T1, verif_T2, verif_T3, verif_T4, verif_T5, verif_T6,
    verif_T7, verif_T8, verif_T9, verif_T10, verif_T11, verif_T12;
unsigned verif_kk, verif_r0;
spec_state verif_A_pre, verif_A_post;
static spec_state any_state(void)
{ spec_state a; a.x[0] = nondet_u64(); a.x[1] = nondet_u64(); a.x[2] = nondet_u64(); a.x[3] = nondet_u64(); a.x[4] = nondet_u64(); return a; }

void h_masked_permute(void)
{
    ascon_masked_state_t *st;
    uint64_t *preserve;
    uint8_t r = nondet_u8();
    __CPROVER_assume(r <= 12);
    verif_T0 = any_state(); verif_T1 = any_state(); verif_T2 = any_state(); verif_T3 = any_state();
    verif_T4 = any_state(); verif_T5 = any_state(); verif_T6 = any_state(); verif_T7 = any_state();
    verif_T8 = any_state(); verif_T9 = any_state(); verif_T10 = any_state(); verif_T11 = any_state();
    verif_T12 = any_state();
#if defined(VERIF_STAGE_A)
    {
        ascon_masked_state_t any; uint64_t pres[3]; unsigned i, k;
        for (i = 0; i < 5; ++i) for (k = 0; k < ASCON_MASKED_MAX_SHARES; ++k) any.M[i].S[k] = nondet_u64();
        pres[0] = nondet_u64(); pres[1] = nondet_u64(); pres[2] = nondet_u64();
        verif_kk = nondet_unsigned();
        __CPROVER_assume(verif_kk < 12);
        verif_A_pre = any_state();
        verif_A_post = ref_round(verif_A_pre, verif_kk);
        VERIF_FN(&any, r, pres);
    }
#else
    verif_r0 = VERIF_IDX(r);
    VERIF_FN(st, r, preserve);
#endif
    VERIF_REACH_POINT("h_masked_permute end");
}
