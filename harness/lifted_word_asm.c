/* Translation unit holding the x86-64 assembly masked-word toolkit (src/masking/ascon-word-asm-x86-64.S) lifted to
 * C by tools/lift_x86_64.py --plain on every run (VERIF_LIFTED names the generated file).  No cut points: the only
 * loops (byte loops of load_partial/store_partial) run at most 8 times and are unwound completely.  A call to
 * ascon_trng_generate_64 is the C call with the pointer in rdi; caller-saved registers are havocked after it. */
#include <ascon/masking.h>
#include "masking/ascon-masked-word.h"
#include "random/ascon-trng.h"
#include <stdint.h>
uint64_t nondet_u64(void);
#define verif_asm_nondet_u64 nondet_u64
#define VERIF_ASM_CALL_ascon_trng_generate_64 rax = ascon_trng_generate_64((ascon_trng_state_t *)rdi);
#include VERIF_LIFTED
