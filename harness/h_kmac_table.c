/* C04/C09: the pre-computed first block of ASCON-KMAC / ASCON-KMACA (used when the output length is 32) equals what
 * the generic path computes: p^12 of the cXOF IV block for the function name "KMAC" and 256 output bits.  Concrete
 * obligation (no symbolic input): the table of the selected state encoding (uint64[5], bit-sliced uint32[10] or
 * uint8[40]) against ref_permute evaluated on the IV block of the specification.  The real translation unit is
 * included to reach the static function. */
#include "verif_harness.h"
#include "verif_canon.h"
#include "spec_perm.h"
#if defined(VARIANT_A)
#include "../../repo/src/mac/ascon-kmaca.c"
#define TABLE_FN ascon_kmaca_init_precomputed
#define STATE_T ascon_xofa_state_t
#define XIVHI 0x00400c04u
#else
#include "../../repo/src/mac/ascon-kmac.c"
#define TABLE_FN ascon_kmac_init_precomputed
#define STATE_T ascon_xof_state_t
#define XIVHI 0x00400c00u
#endif

void h_kmac_table(void)
{
    STATE_T st; spec_state iv, e, got;
    iv.x[0] = (((uint64_t)XIVHI) << 32) | 256u;                 /* IV || output length in bits */
#ifndef VERIF_NAMEWORD
#define VERIF_NAMEWORD 0x4b4d414300000000ULL
#endif
    iv.x[1] = VERIF_NAMEWORD;                              /* "KMAC" zero-padded to 32 bytes */
    iv.x[2] = iv.x[3] = iv.x[4] = 0;
    e = ref_permute(iv, 0);
    TABLE_FN(&st);
    got = verif_canon(&st.state);
    __CPROVER_assert(got.x[0] == e.x[0] && got.x[1] == e.x[1] && got.x[2] == e.x[2] && got.x[3] == e.x[3] && got.x[4] == e.x[4],
                     "pre-computed KMAC block == p^12(IV(256) || \"KMAC\" || 0*) in this state encoding");
    __CPROVER_assert(st.count == 0 && st.mode == 0, "pre-computed KMAC state starts absorbing at position 0");
    VERIF_REACH_POINT("h_kmac_table end");
}
