/* C10: masked state conversions (src/masking/ascon-masked-state.c): every
 * conversion and re-randomisation preserves the unmasked 320-bit state for
 * every random tape and every share pattern of the source, in place and out of
 * place; copy_from_x1 / copy_to_x1 agree with the canonical view of the plain state. */
#include <ascon/masking.h>
#include <ascon/permutation.h>
#include "masking/ascon-masked-state.h"
#include "random/ascon-trng.h"
#include "verif_harness.h"
#include "verif_canon.h"

uint64_t ascon_trng_generate_64(ascon_trng_state_t *state) { (void)state; return nondet_u64(); }
uint32_t ascon_trng_generate_32(ascon_trng_state_t *state) { (void)state; return nondet_u32(); }

#define UNROT64(x, k) ((k) == 0 ? (uint64_t)(x) : (uint64_t)(((uint64_t)(x) << (11 * (k))) | ((uint64_t)(x) >> (64 - 11 * (k)))))
#define SHARE(w, k) UNROT64((w)->S[k], k)
#define UNMASK1(w) (SHARE(w, 0))
#define UNMASK2(w) (SHARE(w, 0) ^ SHARE(w, 1))
#define UNMASK3(w) (SHARE(w, 0) ^ SHARE(w, 1) ^ SHARE(w, 2))
#define UNMASK4(w) (SHARE(w, 0) ^ SHARE(w, 1) ^ SHARE(w, 2) ^ SHARE(w, 3))
#define CAT_(a, b) a##b
#define CAT(a, b) CAT_(a, b)
#define UNMASK(n, w) CAT(UNMASK, n)(w)

static void any_state(ascon_masked_state_t *s) { unsigned i, k; for (i = 0; i < 5; ++i) for (k = 0; k < ASCON_MASKED_MAX_SHARES; ++k) s->M[i].S[k] = nondet_u64(); }

void h_masked_state(void)
{
    ascon_masked_state_t a, b, a0;
    ascon_state_t p;
    ascon_trng_state_t trng;
    unsigned i;
    any_state(&a); any_state(&b); a0 = a;
    for (i = 0; i < 40; ++i) p.B[i] = nondet_u8();
#if defined(OP_randomize)
    CAT(CAT(ascon_x, NS), _randomize)(&a, &trng);
    for (i = 0; i < 5; ++i) __CPROVER_assert(UNMASK(NS, &a.M[i]) == UNMASK(NS, &a0.M[i]), "state randomize preserves every word for every random tape");
#elif defined(OP_from_x1)
    CAT(CAT(ascon_x, NS), _copy_from_x1)(&a, &p, &trng);
    for (i = 0; i < 5; ++i) __CPROVER_assert(UNMASK(NS, &a.M[i]) == CANON_W(&p, i), "copy_from_x1: masked word i unmasks to canonical word i of the plain state");
#elif defined(OP_to_x1)
    CAT(CAT(ascon_x, NS), _copy_to_x1)(&p, &a);
    for (i = 0; i < 5; ++i) __CPROVER_assert(CANON_W(&p, i) == UNMASK(NS, &a.M[i]), "copy_to_x1: canonical word i of the plain state is the unmasked word i");
#elif defined(OP_from)
#if defined(VERIF_ALIAS)
    CAT(CAT(CAT(ascon_x, NS), _copy_from_x), MS)(&a, &a, &trng);
    for (i = 0; i < 5; ++i) __CPROVER_assert(UNMASK(NS, &a.M[i]) == UNMASK(MS, &a0.M[i]), "copy_from_xM (in place) preserves every word");
#else
    CAT(CAT(CAT(ascon_x, NS), _copy_from_x), MS)(&a, &b, &trng);
    for (i = 0; i < 5; ++i) __CPROVER_assert(UNMASK(NS, &a.M[i]) == UNMASK(MS, &b.M[i]), "copy_from_xM preserves every word, whatever the unused shares of the source hold");
#endif
#endif
    VERIF_REACH_POINT("h_masked_state end");
}
