/* C20 (C part): ascon_bytes_to_hex / ascon_bytes_from_hex against an independent
 * reference decoder/encoder written from the property statement.  The input
 * length is the constant VERIF_N of the group (the groups cover 0..max); all
 * characters/bytes and the output capacity are symbolic; buffers are exactly
 * sized (a write beyond the capacity is a failed bounds obligation). */
#include <ascon/utility.h>
#include "verif_harness.h"

static int ref_digit(char ch)          /* 0..15, -2 for whitespace, -1 for anything else */
{
    if (ch >= '0' && ch <= '9') return ch - '0';
    if (ch >= 'a' && ch <= 'f') return 10 + (ch - 'a');
    if (ch >= 'A' && ch <= 'F') return 10 + (ch - 'A');
    if (ch == ' ' || ch == '\t' || ch == '\r' || ch == '\n' || ch == '\f' || ch == '\v') return -2;
    return -1;
}
/* accepts exactly hex digits with optional whitespace; -1 for any other character,
 * an odd digit count or insufficient space; else the number of bytes decoded */
static int ref_from_hex(unsigned char *out, size_t cap, const char *in, size_t n)
{
    size_t i, pos = 0; int have = 0, hi = 0;
    for (i = 0; i < n; ++i) {
        int d = ref_digit(in[i]);
        if (d == -2) continue;
        if (d < 0) return -1;
        if (!have) { hi = d; have = 1; }
        else { if (pos >= cap) return -1; out[pos++] = (unsigned char)((hi << 4) | d); have = 0; }
    }
    return have ? -1 : (int)pos;
}

void h_hex(void)
{
    size_t cap = nondet_size();
    unsigned i;
#if defined(OP_from_hex)
    char in[VERIF_N + 1]; unsigned char ref[VERIF_N / 2 + 1]; unsigned char *out; int r, e;
    for (i = 0; i < VERIF_N; ++i) in[i] = (char)nondet_u8();
    __CPROVER_assume(cap <= VERIF_N / 2 + 1);
    out = malloc(cap); __CPROVER_assume(out != 0);
    e = ref_from_hex(ref, cap, in, VERIF_N);
    r = ascon_bytes_from_hex(out, cap, in, VERIF_N);
    __CPROVER_assert(r == e, "from_hex: returns the number of bytes decoded, or -1 for a non-hex character, an odd digit count or insufficient space");
    for (i = 0; i < VERIF_N / 2 + 1; ++i) if (e >= 0 && (int)i < e) __CPROVER_assert(out[i] == ref[i], "from_hex: every decoded byte is right");
#elif defined(OP_to_hex)
    unsigned char in[VERIF_N + 1]; char *out; char snap[2 * VERIF_N + 3]; int r, uc = nondet_int();
    static const char lo[] = "0123456789abcdef", up[] = "0123456789ABCDEF";
    for (i = 0; i < VERIF_N; ++i) in[i] = nondet_u8();
    __CPROVER_assume(cap <= 2 * VERIF_N + 2);
    out = malloc(cap); __CPROVER_assume(out != 0);
    for (i = 0; i < 2 * VERIF_N + 2; ++i) if (i < cap) snap[i] = out[i];
    r = ascon_bytes_to_hex(out, cap, in, VERIF_N, uc);
    if (cap < 2 * VERIF_N + 1) {
        __CPROVER_assert(r == -1, "to_hex: -1 when the buffer cannot hold 2*inlen+1 characters");
        for (i = 1; i < 2 * VERIF_N + 2; ++i) if (i < cap) __CPROVER_assert(out[i] == snap[i], "to_hex: on error nothing beyond out[0] is written");
    } else {
        __CPROVER_assert(r == 2 * VERIF_N, "to_hex: returns 2*inlen");
        for (i = 0; i < VERIF_N; ++i) {
            __CPROVER_assert(out[2 * i] == (uc ? up : lo)[in[i] >> 4] && out[2 * i + 1] == (uc ? up : lo)[in[i] & 15], "to_hex: two digits per byte in the requested case");
        }
        __CPROVER_assert(out[2 * VERIF_N] == 0, "to_hex: NUL terminated");
    }
#elif defined(OP_roundtrip)
    unsigned char in[VERIF_N + 1], back[VERIF_N + 1]; char hex[2 * VERIF_N + 1]; int r;
    for (i = 0; i < VERIF_N; ++i) in[i] = nondet_u8();
    r = ascon_bytes_to_hex(hex, sizeof(hex), in, VERIF_N, nondet_int());
    __CPROVER_assert(r == 2 * VERIF_N, "round trip: encode succeeds");
    r = ascon_bytes_from_hex(back, VERIF_N, hex, 2 * VERIF_N);
    __CPROVER_assert(r == VERIF_N, "round trip: decode returns the original length");
    for (i = 0; i < VERIF_N; ++i) __CPROVER_assert(back[i] == in[i], "round trip: decode(encode(x)) == x");
#endif
    VERIF_REACH_POINT("h_hex end");
}
