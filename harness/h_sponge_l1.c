/* L1 harness for the sponge families (XOF, XOFA, PRF): arbitrary permutation
 * state and data; entry count, mode and length are the constants VERIF_COUNT,
 * VERIF_MODE, VERIF_LEN of this group; exactly-sized buffer. */
#include <ascon/xof.h>
#include <ascon/prf.h>
#include "verif_harness.h"
#include "verif_canon.h"
#include "spec_xof.h"

spec_sponge verif_exp;
unsigned char verif_exp_out[VERIF_LEN_BOUND];
size_t verif_i;

void h_sponge_l1(void)
{
    /* a stack object, not malloc: CBMC propagates the constant count/mode
     * through fields of non-dynamic objects only, and the loops of the function
     * are unwound exactly only when these are constants */
    VERIF_T st_obj;
    VERIF_T *st = &st_obj;
    size_t len = VERIF_LEN;
    unsigned char *buf = (len == 0 && nondet_bool()) ? 0 : malloc(len);   /* empty input/output may be a null pointer */
    unsigned k;
    __CPROVER_assume(len == 0 || buf != 0);
    for (k = 0; k < 40; ++k)
        st->state.B[k] = nondet_u8();     /* arbitrary permutation state */
    st->count = VERIF_COUNT;
    st->mode = VERIF_MODE;
    verif_i = nondet_size();
    verif_exp.s = verif_canon(&st->state);
    verif_exp.count = VERIF_COUNT;
    verif_exp.mode = VERIF_MODE;
#if defined(VERIF_SPONGE_ABSORB)
    spec_sponge_absorb(&VERIF_PARAMS, &verif_exp, buf, len);
#else
    spec_sponge_squeeze(&VERIF_PARAMS, &verif_exp, verif_exp_out, len);
#endif
    VERIF_FN(st, buf, len);
    VERIF_REACH_POINT("h_sponge_l1 end");
}
