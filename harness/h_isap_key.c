#include <ascon/isap.h>
#include "verif_harness.h"
size_t verif_i;
void h_isap_key(void)
{
    VERIF_T *pk; unsigned char *k;
    verif_i = nondet_size();
    VERIF_FN(pk, k);
    VERIF_REACH_POINT("h_isap_key end");
}
