/* C19 (in-process part): hash_file / check_file of apps/asconsum/asconsum.c, the real
 * file included verbatim (main renamed), stdio and the hash library stubbed:
 *   fopen may fail; fread returns any count and the stream may be in error afterwards;
 *   fgets delivers VERIF_LINES checksum lines of arbitrary characters (up to 80, plus line end);
 *   every digest computation yields the ghost digest verif_digest.
 * printf is intercepted to observe what the tool reports.  BUFSIZ is 16 here (chunk loop of the
 * file helpers unwound for up to 3 buffers).
 * Asserted: check mode prints OK for a line exactly when the line is well formed (64 hex digits,
 * spaces, a file name), the listed file could be opened and read without error and the listed
 * digest equals the computed one; check_file returns 1 only if every line was OK; hash_file
 * prints a digest and returns 1 exactly when the file could be opened and read without error. */
#include <stdio.h>
#include <string.h>
#undef BUFSIZ
#define BUFSIZ 16
#include "verif_harness.h"
#ifndef VERIF_BUFS
#define VERIF_BUFS 3
#endif

static unsigned char verif_digest[32];
static int verif_ok_printed, verif_failed_printed, verif_readfail_printed, verif_digest_printed;
static int verif_digest_wrong, verif_alg_used, verif_absorb_bad;
static size_t verif_last_r; static int verif_pending, verif_fread_calls;
static unsigned char verif_lastbuf[16];
static int verif_fopen_calls, verif_fgets_calls, verif_open_ok[4], verif_err[4];
static char verif_line0[96], verif_line1[96];      /* two objects, not one 2-D array (see DESIGN B.5: CBMC mis-evaluated reads of the second row through a char pointer) */
#define verif_lines_(k) ((k) == 0 ? verif_line0 : verif_line1)
static FILE *verif_fake[4];
static int verif_printf(const char *fmt, long arg)
{
    if (fmt[0] == 'O' && fmt[1] == 'K') verif_ok_printed++;
    else if (fmt[0] == 'F' && fmt[6] == '\n') verif_failed_printed++;
    else if (fmt[0] == 'F') verif_readfail_printed++;
    else if (fmt[0] == '%' && fmt[1] == '0') {
        if (verif_digest_printed < 32 && arg != verif_digest[verif_digest_printed]) verif_digest_wrong = 1;
        verif_digest_printed++;
    }
    return 0;
}
static FILE *verif_fopen(const char *name, const char *mode)
{ int k = verif_fopen_calls++; (void)name; (void)mode; __CPROVER_assume(k < 4); verif_open_ok[k] = nondet_bool(); verif_err[k] = nondet_bool(); return verif_open_ok[k] ? verif_fake[k] : 0; }
static int verif_idx(FILE *f) { int k; for (k = 0; k < 4; ++k) if (f == verif_fake[k]) return k; return 0; }
static size_t verif_fread(void *p, size_t sz, size_t n, FILE *f)
{   /* delivers r arbitrary bytes (recorded in verif_lastbuf); files of fewer than VERIF_BUFS buffers */
    size_t r = nondet_size(), i; (void)f;
    __CPROVER_assume(r <= n && sz == 1 && n == 16);
    if (++verif_fread_calls >= VERIF_BUFS) __CPROVER_assume(r < n);
    if (verif_pending) verif_absorb_bad = 1;           /* previous data was never absorbed */
    for (i = 0; i < 16; ++i) if (i < r) ((unsigned char *)p)[i] = verif_lastbuf[i] = nondet_u8();
    verif_last_r = r; verif_pending = (r != 0); return r; }
static int verif_ferror(FILE *f) { return verif_err[verif_idx(f)]; }
static int verif_fclose(FILE *f) { (void)f; return 0; }
static char *verif_fgets(char *s, int size, FILE *f)
{ int k = verif_fgets_calls++, i; (void)f; if (k >= VERIF_LINES) return 0; __CPROVER_assert(size >= 96, "line buffer"); for (i = 0; i < 96; ++i) s[i] = verif_lines_(k)[i]; return s; }
#define printf(fmt, ...) verif_printf(fmt, (long)(__VA_ARGS__ + 0))
#define fopen verif_fopen
#define fread verif_fread
#define ferror verif_ferror
#define fclose verif_fclose
#define fgets verif_fgets
#define perror(x) ((void)(x))
#define main asconsum_main
#include "../../repo/apps/asconsum/asconsum.c"
#undef main

/* hash library stubs: each algorithm records that it was selected, update/absorb checks that it is fed
 * the ghost stream in order, and the digest of the absorbed data is the ghost digest */
static void take(const unsigned char *in, size_t n)
{ size_t i; if (!verif_pending || n != verif_last_r) { verif_absorb_bad = 1; return; } for (i = 0; i < 16; ++i) if (i < n && in[i] != verif_lastbuf[i]) verif_absorb_bad = 1; verif_pending = 0; }
static void give_digest(unsigned char *out) { int i; for (i = 0; i < 32; ++i) out[i] = verif_digest[i]; }
void ascon_hash_init(ascon_hash_state_t *s) { (void)s; verif_alg_used = ALG_ASCON_HASH; verif_pending = 0; verif_fread_calls = 0; }
void ascon_hasha_init(ascon_hasha_state_t *s) { (void)s; verif_alg_used = ALG_ASCON_HASHA; verif_pending = 0; verif_fread_calls = 0; }
void ascon_xof_init(ascon_xof_state_t *s) { (void)s; verif_alg_used = ALG_ASCON_XOF; verif_pending = 0; verif_fread_calls = 0; }
void ascon_xofa_init(ascon_xofa_state_t *s) { (void)s; verif_alg_used = ALG_ASCON_XOFA; verif_pending = 0; verif_fread_calls = 0; }
void ascon_hash_update(ascon_hash_state_t *s, const unsigned char *in, size_t n) { (void)s; if (verif_alg_used != ALG_ASCON_HASH) verif_absorb_bad = 1; take(in, n); }
void ascon_hasha_update(ascon_hasha_state_t *s, const unsigned char *in, size_t n) { (void)s; if (verif_alg_used != ALG_ASCON_HASHA) verif_absorb_bad = 1; take(in, n); }
void ascon_xof_absorb(ascon_xof_state_t *s, const unsigned char *in, size_t n) { (void)s; if (verif_alg_used != ALG_ASCON_XOF) verif_absorb_bad = 1; take(in, n); }
void ascon_xofa_absorb(ascon_xofa_state_t *s, const unsigned char *in, size_t n) { (void)s; if (verif_alg_used != ALG_ASCON_XOFA) verif_absorb_bad = 1; take(in, n); }
static void fin(int alg, unsigned char *out) { if (verif_alg_used != alg || verif_pending) verif_absorb_bad = 1; give_digest(out); }
void ascon_hash_finalize(ascon_hash_state_t *s, unsigned char *out) { (void)s; fin(ALG_ASCON_HASH, out); }
void ascon_hasha_finalize(ascon_hasha_state_t *s, unsigned char *out) { (void)s; fin(ALG_ASCON_HASHA, out); }
void ascon_xof_squeeze(ascon_xof_state_t *s, unsigned char *out, size_t n) { (void)s; if (n != 32) verif_absorb_bad = 1; fin(ALG_ASCON_XOF, out); }
void ascon_xofa_squeeze(ascon_xofa_state_t *s, unsigned char *out, size_t n) { (void)s; if (n != 32) verif_absorb_bad = 1; fin(ALG_ASCON_XOFA, out); }
void ascon_hash_free(ascon_hash_state_t *s) { (void)s; } void ascon_hasha_free(ascon_hasha_state_t *s) { (void)s; }
void ascon_xof_free(ascon_xof_state_t *s) { (void)s; } void ascon_xofa_free(ascon_xofa_state_t *s) { (void)s; }

static int spec_hex(char c) { return (c >= '0' && c <= '9') ? c - '0' : (c >= 'a' && c <= 'f') ? c - 'a' + 10 : (c >= 'A' && c <= 'F') ? c - 'A' + 10 : -1; }
/* a checksum line is well formed and lists the ghost digest: 64 hex digits == digest, one or more spaces, a non-empty file name */
static int spec_line_matches(const char *l, int *wellformed)
{
    int i, n = 0, ok = 1, p;
    while (n < 95 && l[n] != 0) ++n;
    while (n > 0 && (l[n - 1] == '\n' || l[n - 1] == '\r')) --n;
    *wellformed = 0;
    if (n < 66) return 0;
    for (i = 0; i < 32; ++i) { int h = spec_hex(l[2 * i]), lo = spec_hex(l[2 * i + 1]); if (h < 0 || lo < 0) return 0; if ((unsigned char)(h * 16 + lo) != verif_digest[i]) ok = 0; }
    if (l[64] != ' ') return 0;
    p = 64; while (p < n && l[p] == ' ') ++p;
    if (p >= n) return 0;
    *wellformed = 1;
    return ok;
}

void h_asconsum(void)
{
    int i, k, r, alg = nondet_int();
    static FILE fake_objs[4];
    for (k = 0; k < 4; ++k) verif_fake[k] = &fake_objs[k];
    for (i = 0; i < 32; ++i) verif_digest[i] = nondet_u8();
    verif_ok_printed = verif_failed_printed = verif_readfail_printed = verif_digest_printed = 0;
    verif_fopen_calls = verif_fgets_calls = 0;
    verif_digest_wrong = verif_absorb_bad = 0; verif_alg_used = -1; verif_pending = 0; verif_fread_calls = 0; verif_last_r = 0;
    __CPROVER_assume(alg >= 0 && alg <= 3);
#if defined(OP_hash)
    r = hash_file("some-file", alg);
    __CPROVER_assert(r == (verif_open_ok[0] && !verif_err[0]), "hash_file succeeds exactly when the file could be opened and read without error");
    __CPROVER_assert((verif_digest_printed == 32) == (r != 0) && (r != 0 || verif_digest_printed == 0), "hash_file prints the 32-byte digest exactly when it succeeds");
    __CPROVER_assert(!verif_digest_wrong, "the bytes printed are the digest that the hash computation delivered");
    __CPROVER_assert(!verif_open_ok[0] || (!verif_absorb_bad && verif_alg_used == alg), "the selected algorithm absorbs exactly the bytes read from the file, in order, and is finalised after the last of them");
#else
    {
        int wf[2] = {0, 0}, match[2] = {0, 0}, nn[2] = {0, 0}, expect_ok = 0, lines_wf = 0, malformed = 0, f = 1;
        for (k = 0; k < VERIF_LINES; ++k) {
            int n, p;
            for (i = 0; i < 95; ++i) verif_lines_(k)[i] = (char)nondet_u8();
            verif_lines_(k)[95] = 0;
            n = nondet_int(); __CPROVER_assume(n >= 0 && n <= 82);
#if defined(VERIF_NMIN)
            if (k == 0) __CPROVER_assume(n >= VERIF_NMIN && n <= VERIF_NMAX);    /* length bucket of this group (first line) */
#endif
            nn[k] = n;
            verif_lines_(k)[n] = '\n'; verif_lines_(k)[n + 1] = 0;            /* a line of n characters and a line end */
            for (i = 0; i < 82; ++i) if (i < n) __CPROVER_assume(verif_lines_(k)[i] != 0 && verif_lines_(k)[i] != '\n' && verif_lines_(k)[i] != '\r');
            match[k] = spec_line_matches(verif_lines_(k), &wf[k]);
            /* not modelled: a listed file name "-" (stdin) */
            p = 64; while (p < n && verif_lines_(k)[p] == ' ') ++p;
            __CPROVER_assume(!(wf[k] && p == n - 1 && verif_lines_(k)[p] == '-'));
        }
        r = check_file("sums", alg);
        if (verif_open_ok[0]) {
            /* the listed files are opened in order, one per well-formed line (fopen calls 1, 2) */
            for (k = 0; k < VERIF_LINES; ++k) {
                if (wf[k]) { if (match[k] && verif_open_ok[f] && !verif_err[f]) expect_ok++; lines_wf++; f++; }
                else if (nn[k] != 0) malformed++;
            }
            __CPROVER_assert(!verif_absorb_bad && (lines_wf == 0 || f == 1 || verif_alg_used == alg || verif_alg_used == -1), "the selected algorithm absorbs exactly the bytes read from each listed file");
            __CPROVER_assert(verif_ok_printed == expect_ok, "check mode reports OK exactly for the listed files that were read without error and whose digest matches");
            __CPROVER_assert(verif_ok_printed + verif_failed_printed + verif_readfail_printed == lines_wf, "every well-formed line gets exactly one verdict");
            __CPROVER_assert(r == (lines_wf >= 1 && malformed == 0 && expect_ok == lines_wf), "check_file succeeds exactly when every non-empty line was well formed and OK");
        } else
            __CPROVER_assert(r == 0, "check_file fails if the checksum file cannot be opened");
    }
#endif
    VERIF_REACH_POINT("h_asconsum end");
}
