#include <ascon/utility.h>
#include "verif_harness.h"
const unsigned char *verif_in0; size_t verif_inlen0; size_t verif_j, verif_gpos;
int verif_ghave, verif_ghi, verif_gerr; unsigned char verif_expj;
void h_hex_lc(void)
{
    char *out; const unsigned char *in; size_t outlen = nondet_size(), inlen = nondet_size();
    verif_j = nondet_size();
#if defined(VERIF_LC_hex_from)
    { unsigned char *o; const char *i2; ascon_bytes_from_hex(o, outlen, i2, inlen); }
#else
    ascon_bytes_to_hex(out, outlen, in, inlen, nondet_int());
#endif
    VERIF_REACH_POINT("h_hex_lc end");
}
