/* L2 harness for the hash / XOF layer (see contracts/c_xof_l2.h).  XIV is the
 * high IV word of the twin (0x00400c00 XOF/HASH, 0x00400c04 XOFA/HASHA), XRC the
 * first round used between absorbed blocks (0 / 4).  Arbitrary session objects
 * (any state, count < 8, mode 0/1) wherever the operation takes an existing one. */
#include <ascon/xof.h>
#include <ascon/hash.h>
#include <string.h>
#include "hash/ascon-xof-internal.h"
#include "verif_harness.h"
#include "verif_canon.h"
#include "spec_xof.h"
#if defined(VERIF_ABSTRACT_P)
#include "c_sponge_summary.h"
verif_sponge_log_t verif_squeeze_log, verif_absorb_log;
#endif

spec_sponge verif_exp;
uint8_t verif_exp_out[32];
size_t verif_i;
#define MAXLEN ((size_t)1 << 40)
#define XCLAMP(outlen) ((outlen) >= (((size_t)1) << 29) ? (size_t)0 : (outlen))

static spec_state iv_block(uint64_t lbits, const uint8_t name[32])
{
    spec_state s; unsigned i;
    s.x[0] = (((uint64_t)XIV) << 32) | (uint64_t)(uint32_t)lbits;
    for (i = 0; i < 4; ++i)
        s.x[1 + i] = name ? (((uint64_t)name[8*i] << 56) | ((uint64_t)name[8*i+1] << 48) | ((uint64_t)name[8*i+2] << 40) |
                             ((uint64_t)name[8*i+3] << 32) | ((uint64_t)name[8*i+4] << 24) | ((uint64_t)name[8*i+5] << 16) |
                             ((uint64_t)name[8*i+6] << 8) | (uint64_t)name[8*i+7]) : 0;
    return s;
}

#if defined(VERIF_ABSTRACT_P)
/* reference versions of the summarised operations: same uninterpreted symbols */
static void ref_absorb(unsigned tag, spec_sponge *sp, const void *buf, size_t len)
{
    sp->s = spec_l1(tag, sp->s, buf, len, sp->count, sp->mode != 0);
    sp->count = (unsigned)(((sp->mode ? 0 : sp->count) + len) % 8);
    sp->mode = 0;
}
static void ref_squeeze32(unsigned tag, spec_sponge *sp, uint8_t out[32])
{
    unsigned j, b; uint64_t cm = SP_CM(sp->count, sp->mode);
    for (j = 0; j < 4; ++j) {
        uint64_t w = SP_SQW(tag, sp->s.x[0], sp->s.x[1], sp->s.x[2], sp->s.x[3], sp->s.x[4], cm, j);
        for (b = 0; b < 8; ++b) out[8 * j + b] = (uint8_t)(w >> (56 - 8 * b));
    }
    sp->s = spec_l1(tag, sp->s, 0, 32, sp->count, sp->mode != 0);
    sp->count = (unsigned)(((sp->mode ? sp->count : 0) + 32) % 8);
    sp->mode = 1;
}
/* cXOF: absorb C, 10* padding, permutation, domain-separation bit */
static void ref_absorb_custom(spec_sponge *sp, const void *custom, size_t len)
{
    if (len > 0) {
        ref_absorb(XTAG_ABSORB, sp, custom, len);
        sp->s = spec_separator(spec_P(spec_pad(sp->s, sp->count), XRC));
        sp->count = 0;
    }
}
#endif

void h_xof_l2(void)
{
    size_t len = nondet_size(), outlen = nondet_size();
    unsigned i;
    __CPROVER_assume(len <= MAXLEN);
    verif_i = nondet_size();
#if defined(VERIF_ABSTRACT_P)
    verif_absorb_log.count = 0; verif_squeeze_log.count = 0;
#endif
#if defined(VERIF_ENFORCE_init) || defined(VERIF_ENFORCE_reinit)
    {   /* concrete: the pre-computed table equals p^12 of the specification's IV block */
        VERIF_T *st = malloc(sizeof(VERIF_T));
        __CPROVER_assume(st != 0);
        verif_exp.s = ref_permute(iv_block(VERIF_LBITS, 0), 0);
        verif_exp.count = 0; verif_exp.mode = 0;
        VERIF_FN(st);
    }
#elif defined(VERIF_ENFORCE_init_fixed_const) || defined(VERIF_ENFORCE_reinit_fixed_const)
    {   /* the declared lengths served from pre-computed tables: 0, 32, and >= 2^29 (treated as 0) */
        VERIF_T *st = malloc(sizeof(VERIF_T));
        __CPROVER_assume(st != 0);
        __CPROVER_assume(outlen == 0 || outlen == 32 || outlen >= (((size_t)1) << 29));
        verif_exp.s = ref_permute(iv_block(XCLAMP(outlen) * 8, 0), 0);
        verif_exp.count = 0; verif_exp.mode = 0;
        VERIF_FN(st, outlen);
    }
#elif defined(VERIF_ENFORCE_init_fixed_gen)
    {   /* every other declared length: the generic path, permutation abstract */
        VERIF_T *st = malloc(sizeof(VERIF_T));
        __CPROVER_assume(st != 0);
        __CPROVER_assume(outlen != 0 && outlen != 32 && outlen < (((size_t)1) << 29));
        VERIF_FN(st, outlen);
    }
#elif defined(VERIF_ENFORCE_absorb_custom)
    {
        VERIF_T *st = malloc(sizeof(VERIF_T));
        unsigned char *custom;
        __CPROVER_assume(st != 0 && st->count < 8 && st->mode <= 1);
        if (len == 0 && nondet_bool()) custom = 0; else { custom = malloc(len); __CPROVER_assume(custom != 0); }
        verif_exp.s = verif_canon(&st->state); verif_exp.count = st->count; verif_exp.mode = st->mode;
        ref_absorb_custom(&verif_exp, custom, len);
        VERIF_FN(st, custom, len);
    }
#elif defined(VERIF_ENFORCE_init_custom) || defined(VERIF_ENFORCE_reinit_custom)
    {
        VERIF_T *st = malloc(sizeof(VERIF_T));
        unsigned char *custom; char *name; size_t nlen = nondet_size();
        uint8_t temp[32];
        __CPROVER_assume(st != 0);
        if (len == 0 && nondet_bool()) custom = 0; else { custom = malloc(len); __CPROVER_assume(custom != 0); }
        /* function name: null, or a NUL-terminated string of nlen <= VERIF_NAME_MAX characters */
        __CPROVER_assume(nlen <= VERIF_NAME_MAX);
        if (nlen == 0 && nondet_bool()) name = 0;
        else {
            name = malloc(nlen + 1);
            __CPROVER_assume(name != 0);
            for (i = 0; i < VERIF_NAME_MAX; ++i) if (i < nlen) __CPROVER_assume(name[i] != 0);
            name[nlen] = 0;
        }
        if (nlen <= 32) {
            for (i = 0; i < 32; ++i) temp[i] = (i < nlen) ? (uint8_t)name[i] : 0;
        } else {    /* names longer than 256 bits are replaced by their ASCON-HASH(A) digest */
            spec_sponge h;
            h.s = spec_P(iv_block(256, 0), 0); h.count = 0; h.mode = 0;
            ref_absorb(XTAG_ABSORB, &h, name, nlen);
            ref_squeeze32(XTAG_SQUEEZE, &h, temp);
        }
        verif_exp.s = spec_P(iv_block(XCLAMP(outlen) * 8, temp), 0);
        verif_exp.count = 0; verif_exp.mode = 0;
        ref_absorb_custom(&verif_exp, custom, len);
        VERIF_FN(st, name, custom, len, outlen);
    }
#elif defined(VERIF_ENFORCE_oneshot)
    {
        unsigned char *in, *out = malloc(32);
        spec_sponge h;
        __CPROVER_assume(out != 0);
        if (len == 0 && nondet_bool()) in = 0; else { in = malloc(len); __CPROVER_assume(in != 0); }
        h.s = spec_P(iv_block(VERIF_LBITS, 0), 0); h.count = 0; h.mode = 0;
        ref_absorb(XTAG_ABSORB, &h, in, len);
        ref_squeeze32(XTAG_SQUEEZE, &h, verif_exp_out);
        VERIF_FN(out, in, len);
    }
#elif defined(VERIF_ENFORCE_copy)
    {
        VERIF_T *d = malloc(sizeof(VERIF_T)), *s2 = malloc(sizeof(VERIF_T));
        __CPROVER_assume(d != 0 && s2 != 0);
        if (nondet_bool()) s2 = d;           /* copying an object onto itself is allowed */
        verif_exp.s = verif_canon(&VERIF_XST(s2)->state); verif_exp.count = VERIF_XST(s2)->count; verif_exp.mode = VERIF_XST(s2)->mode;
        VERIF_FN(d, s2);
    }
#elif defined(VERIF_ENFORCE_free)
    {
        VERIF_T *st = malloc(sizeof(VERIF_T));
        __CPROVER_assume(st != 0);
        VERIF_FN(st);
    }
#endif
    VERIF_REACH_POINT("h_xof_l2 end");
}
