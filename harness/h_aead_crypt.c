/* L1 harness for ascon_aead_encrypt_8/16 and ascon_aead_decrypt_8/16:
 * arbitrary state and data, EVERY entry position 0..rate-1 and EVERY
 * len < VERIF_LEN_BOUND, exactly-sized buffers, dest == src when
 * -DVERIF_ALIAS.  The entry position is a compile-time constant per run
 * (symbolic offsets into the state cost two orders of magnitude, DESIGN 2.11);
 * the groups of a property cover every position.  The specification
 * (spec_encrypt_run / spec_decrypt_run with the abstract permutation) is run
 * first into ghost objects; the enforced contract compares. */
#include <ascon/permutation.h>
#include "verif_harness.h"
#include "verif_canon.h"
#include "spec_sponge.h"
#include "aead/ascon-aead-common.h"

#ifndef VERIF_LEN_BOUND
#error "VERIF_LEN_BOUND"
#endif
unsigned char verif_exp_out[VERIF_LEN_BOUND];
spec_state verif_exp_state;
unsigned verif_exp_pos;
size_t verif_i;

static void one_case(unsigned char partial, size_t len)
{
    ascon_state_t *st = malloc(sizeof(ascon_state_t));
    uint8_t r = nondet_u8();
    unsigned char *src, *dest;
    __CPROVER_assume(st != 0);
    __CPROVER_assume(r <= 12);
#if defined(VERIF_FIXED_BUF)
    src = malloc(VERIF_LEN_BOUND);
#else
    src = malloc(len);
#endif
    __CPROVER_assume(src != 0);
    if (len == 0 && nondet_bool())
        src = 0;                         /* an empty message may be a null pointer */
#if defined(VERIF_ALIAS)
    dest = src;
#else
#if defined(VERIF_FIXED_BUF)
    dest = malloc(VERIF_LEN_BOUND);
#else
    dest = malloc(len);
#endif
    __CPROVER_assume(dest != 0);
    if (len == 0 && nondet_bool())
        dest = 0;
#endif
    verif_i = nondet_size();
    verif_exp_pos = partial;
#if defined(VERIF_DECRYPT)
    verif_exp_state = spec_decrypt_run(verif_canon(st), &verif_exp_pos, src, verif_exp_out, len, VERIF_RATE, r);
#else
    verif_exp_state = spec_encrypt_run(verif_canon(st), &verif_exp_pos, src, verif_exp_out, len, VERIF_RATE, r);
#endif
    VERIF_FN(st, dest, src, len, r, partial);
}

void h_aead_crypt(void)
{
    /* one constant entry position per run (-DVERIF_PARTIAL=p; the groups cover
     * p = 0..rate-1), every len below the bound */
#if defined(VERIF_LEN)
    one_case((unsigned char)VERIF_PARTIAL, (size_t)VERIF_LEN);   /* constant length too */
#else
    size_t len = nondet_size();
    __CPROVER_assume(len < VERIF_LEN_BOUND);
#if defined(VERIF_LEN_LO)
    __CPROVER_assume(len >= VERIF_LEN_LO);
#endif
    one_case((unsigned char)VERIF_PARTIAL, len);
#endif
    VERIF_REACH_POINT("h_aead_crypt end");
}
