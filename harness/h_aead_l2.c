/* L2 harness for the one-shot AEAD entry points: every key, nonce, AD and
 * message content and every length below 2^40 (buffers exactly sized; AD may
 * be a null pointer when adlen == 0; m == c in place when -DVERIF_ALIAS).
 * The reference composition (Algorithm 1 over the abstract permutation and the
 * L1 summaries) is evaluated first into ghost objects; the enforced contract
 * of the entry point (contracts/c_aead_l2.h) compares. */
#include <ascon/aead.h>
#include "verif_harness.h"
#include "spec_aead.h"
#include "c_aead_l1_summary.h"

spec_state verif_exp_in;
uint8_t verif_exp_tag[16];
int verif_exp_result;
verif_crypt_log_t verif_crypt_log;
verif_check_log_t verif_check_log;

#define MAXLEN ((size_t)1 << 40)

void h_aead_l2(void)
{
    const spec_aead_params *pa = &VERIF_L2_PARAMS;
    size_t len = nondet_size(), adlen = nondet_size();
    unsigned char *k = malloc(VERIF_L2_KEYLEN), *npub = malloc(16);
    unsigned char *ad, *in, *out;
    size_t outlen_store;
    size_t *outlen = &outlen_store;
    spec_state s;
    __CPROVER_assume(len <= MAXLEN && adlen <= MAXLEN);
    __CPROVER_assume(k != 0 && npub != 0);
    if (adlen == 0 && nondet_bool())
        ad = 0;                          /* null pointer for an empty optional input */
    else {
        ad = malloc(adlen);
        __CPROVER_assume(ad != 0);
    }
    verif_crypt_log.count = 0;
    verif_check_log.count = 0;
#if defined(VERIF_L2_ENCRYPT)
    /* len = mlen */
    in = malloc(len);
    __CPROVER_assume(in != 0);
#if defined(VERIF_ALIAS)
    out = malloc(len + 16);
    __CPROVER_assume(out != 0);
    in = out;                            /* in-place: m == c */
#else
    out = malloc(len + 16);
    __CPROVER_assume(out != 0);
#endif
    s = spec_aead_start(pa, k, npub, ad, adlen);
    verif_exp_in = s;
    s = SPEC_ENCRYPT(s, in, out, len, pa->rate, pa->round_b, 0);
    spec_aead_finalize(pa, s, (unsigned)(len % pa->rate), k, verif_exp_tag);
    VERIF_L2_FN(out, outlen, in, len, ad, adlen, npub, k);
#else
    /* len = clen; may be shorter than the tag */
    in = malloc(len);
    __CPROVER_assume(in != 0);
#if defined(VERIF_ALIAS)
    out = in;
#else
    out = malloc(len >= 16 ? len - 16 : 0);
    __CPROVER_assume(out != 0);
#endif
    if (len >= 16) {
        s = spec_aead_start(pa, k, npub, ad, adlen);
        verif_exp_in = s;
        s = SPEC_DECRYPT(s, in, out, len - 16, pa->rate, pa->round_b, 0);
        spec_aead_finalize(pa, s, (unsigned)((len - 16) % pa->rate), k, verif_exp_tag);
    }
    VERIF_L2_FN(out, outlen, in, len, ad, adlen, npub, k);
#endif
    VERIF_REACH_POINT("h_aead_l2 end");
}
