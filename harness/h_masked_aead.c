/* C01/C02/C10/C16: masked one-shot AEAD (ascon128/128a/80pq _masked_aead_encrypt/_decrypt) against the
 * SAME reference composition as the unmasked ciphers (Algorithm 1 of ASCON v1.2, spec/spec_aead.h, over the
 * abstract permutation spec_P), for every key, nonce, AD/message content and EVERY random tape, at the
 * constant lengths of the group (VERIF_ADLEN, VERIF_MLEN).
 * Real code: the AEAD entry point, the masked absorb/encrypt/decrypt loops (ascon-aead-masked-common.c), the
 * masked word toolkit (ascon-masked-word-c64.c), masked state conversions (ascon-masked-state.c), masked key
 * set-up (ascon-masked-key.c), ascon_aead_check_tag, ascon_clean.
 * Specification stubs: the masked permutations ascon_x2/x3/x4_permute = the contract proved in C10
 * (unmasked(state') == P(unmasked(state)), ANY re-sharing of the result, preserve[] arbitrary afterwards);
 * the TRNG returns arbitrary words on every call.
 * Asserted: ciphertext and tag (encrypt); plaintext and 0 / -1 exactly as the tag comparison dictates
 * (decrypt); *clen / *mlen; the caller's const masked key object is bit-for-bit unchanged (C16). */
#include <ascon/aead.h>
#include <ascon/masking.h>
#include <ascon/aead-masked.h>
#include "masking/ascon-masked-state.h"
#include "random/ascon-trng.h"
#include "verif_harness.h"
#include "spec_aead.h"
#include "verif_canon.h"

#if defined(ASCON_MASKED_WORD_BACKEND_DIRECT_XOR)
#define UNROT(x, k) ((uint64_t)(x))
#define ROT(x, k) ((uint64_t)(x))
#else
#define UNROT(x, k) ((k) == 0 ? (uint64_t)(x) : (uint64_t)(((uint64_t)(x) << (11 * (k))) | ((uint64_t)(x) >> (64 - 11 * (k)))))
#define ROT(x, k) ((k) == 0 ? (uint64_t)(x) : (uint64_t)(((uint64_t)(x) >> (11 * (k))) | ((uint64_t)(x) << (64 - 11 * (k)))))
#endif

int ascon_trng_init(ascon_trng_state_t *state) { (void)state; return nondet_int(); }
void ascon_trng_free(ascon_trng_state_t *state) { (void)state; }
uint32_t ascon_trng_generate_32(ascon_trng_state_t *state) { (void)state; return nondet_u32(); }
uint64_t ascon_trng_generate_64(ascon_trng_state_t *state) { (void)state; return nondet_u64(); }
int ascon_trng_reseed(ascon_trng_state_t *state) { (void)state; return nondet_int(); }

static void stub_permute(ascon_masked_state_t *state, uint8_t first_round, uint64_t *preserve, unsigned shares)
{
    spec_state s; unsigned i;
    for (i = 0; i < 5; ++i) {
        uint64_t v = state->M[i].S[0] ^ UNROT(state->M[i].S[1], 1);
        if (shares >= 3) v ^= UNROT(state->M[i].S[2], 2);
#if ASCON_MASKED_MAX_SHARES >= 4
        if (shares >= 4) v ^= UNROT(state->M[i].S[3], 3);
#endif
        s.x[i] = v;
    }
    s = spec_P(s, first_round);
    for (i = 0; i < 5; ++i) {
        uint64_t r1 = nondet_u64(), r2 = nondet_u64(), r3 = nondet_u64(), v = s.x[i] ^ r1;
        state->M[i].S[1] = ROT(r1, 1);
        if (shares >= 3) { state->M[i].S[2] = ROT(r2, 2); v ^= r2; }
#if ASCON_MASKED_MAX_SHARES >= 4
        if (shares >= 4) { state->M[i].S[3] = ROT(r3, 3); v ^= r3; }
#endif
        state->M[i].S[0] = v;
    }
    for (i = 0; i + 1 < shares; ++i) preserve[i] = nondet_u64();
}
void ascon_x2_permute(ascon_masked_state_t *state, uint8_t first_round, uint64_t *preserve) { stub_permute(state, first_round, preserve, 2); }
void ascon_x3_permute(ascon_masked_state_t *state, uint8_t first_round, uint64_t *preserve) { stub_permute(state, first_round, preserve, 3); }
#if ASCON_MASKED_MAX_SHARES >= 4
void ascon_x4_permute(ascon_masked_state_t *state, uint8_t first_round, uint64_t *preserve) { stub_permute(state, first_round, preserve, 4); }
#endif
#if ASCON_MASKED_DATA_SHARES == 1
void ascon_permute(ascon_state_t *state, uint8_t first_round)
{ spec_state s; unsigned i; for (i = 0; i < 5; ++i) s.x[i] = CANON_W(state, i); s = spec_P(s, first_round); verif_set_canon(state, s); }
#endif

#ifndef VERIF_ADLEN
#define VERIF_ADLEN 0
#endif
#ifndef VERIF_MLEN
#define VERIF_MLEN 0
#endif

void h_masked_aead(void)
{
    const spec_aead_params *pa = &VERIF_MA_PARAMS;
    unsigned char key[VERIF_MA_KEYLEN], npub[16], ad[VERIF_ADLEN + 1], tag[16];
    VERIF_MA_KEYT mk, mk0;
    size_t i, outlen = 12345;
    spec_state s;
    for (i = 0; i < VERIF_MA_KEYLEN; ++i) key[i] = nondet_u8();
    for (i = 0; i < 16; ++i) npub[i] = nondet_u8();
    for (i = 0; i < VERIF_ADLEN; ++i) ad[i] = nondet_u8();
    VERIF_MA_KEYINIT(&mk, key);                 /* real key masking, arbitrary randomness */
    if (nondet_bool()) VERIF_MA_KEYRAND(&mk);   /* ... optionally re-randomised */
    mk0 = mk;
    s = spec_aead_start(pa, key, npub, ad, VERIF_ADLEN);
#if defined(VERIF_MA_ENCRYPT)
    {
        unsigned char m[VERIF_MLEN + 1], c[VERIF_MLEN + 16], ec[VERIF_MLEN + 1];
        for (i = 0; i < VERIF_MLEN; ++i) m[i] = nondet_u8();
        s = spec_encrypt_all(s, m, ec, VERIF_MLEN, pa->rate, pa->round_b, 0);
        spec_aead_finalize(pa, s, (unsigned)(VERIF_MLEN % pa->rate), key, tag);
        VERIF_MA_FN(c, &outlen, m, VERIF_MLEN, VERIF_ADLEN ? (const unsigned char *)ad : (const unsigned char *)0, VERIF_ADLEN, npub, &mk);
        __CPROVER_assert(outlen == VERIF_MLEN + 16, "masked encrypt: *clen == mlen + 16");
        for (i = 0; i < VERIF_MLEN; ++i) __CPROVER_assert(c[i] == ec[i], "masked encrypt: ciphertext equals the unmasked specification for every random tape");
        for (i = 0; i < 16; ++i) __CPROVER_assert(c[VERIF_MLEN + i] == tag[i], "masked encrypt: tag equals the unmasked specification for every random tape");
    }
#else
    {
        unsigned char c[VERIF_MLEN + 16], m[VERIF_MLEN + 1], em[VERIF_MLEN + 1]; int r, eq = 1;
        for (i = 0; i < VERIF_MLEN + 16; ++i) c[i] = nondet_u8();
        s = spec_decrypt_all(s, c, em, VERIF_MLEN, pa->rate, pa->round_b, 0);
        spec_aead_finalize(pa, s, (unsigned)(VERIF_MLEN % pa->rate), key, tag);
        for (i = 0; i < 16; ++i) if (c[VERIF_MLEN + i] != tag[i]) eq = 0;
        r = VERIF_MA_FN(m, &outlen, c, VERIF_MLEN + 16, VERIF_ADLEN ? (const unsigned char *)ad : (const unsigned char *)0, VERIF_ADLEN, npub, &mk);
        __CPROVER_assert(r == (eq ? 0 : -1), "masked decrypt: 0 exactly when the received tag equals the specified tag, -1 otherwise");
        __CPROVER_assert(outlen == VERIF_MLEN, "masked decrypt: *mlen == clen - 16");
        for (i = 0; i < VERIF_MLEN; ++i) __CPROVER_assert(m[i] == (eq ? em[i] : 0), "masked decrypt: plaintext equals the unmasked specification; zeroed on failure");
    }
#endif
    {
        const unsigned char *a = (const unsigned char *)&mk, *b = (const unsigned char *)&mk0; int same = 1;
        for (i = 0; i < sizeof(mk); ++i) if (a[i] != b[i]) same = 0;
        __CPROVER_assert(same, "the caller's const masked key object is not modified (C16: shared read-only key)");
    }
    VERIF_REACH_POINT("h_masked_aead end");
}
