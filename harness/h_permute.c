/* C08: ascon_permute against the reference permutation (all C backends).
 *
 * -DVERIF_STAGE_A: round lemma (see include/ghost_permute.h): T[kk] free,
 *    T[kk+1] = ref_round(T[kk], kk) for an arbitrary round kk; the call runs
 *    from an arbitrary state and start round; no function contract enforced.
 * -DVERIF_STAGE_B: whole function: arbitrary start round r (0..12), T[r'] =
 *    canon(state) with r' = min(r,12) (by the contract's requires clause),
 *    T[k+1] = ref_round(T[k], k) for k >= r'; the contract canon(state') ==
 *    T[12] == ref_permute(canon(state), r) is enforced, with its frame. */
#include <ascon/permutation.h>
#include "verif_canon.h"
#include "ascon-verif-ghost.h"
#include "verif_harness.h"

spec_state verif_T0, verif_T1, verif_T2, verif_T3, verif_T4, verif_T5, verif_T6,
    verif_T7, verif_T8, verif_T9, verif_T10, verif_T11, verif_T12;
unsigned verif_kk;
spec_state verif_A_pre, verif_A_post;
unsigned verif_r0;

static spec_state any_state(void)
{
    spec_state any;
    any.x[0] = nondet_u64(); any.x[1] = nondet_u64(); any.x[2] = nondet_u64();
    any.x[3] = nondet_u64(); any.x[4] = nondet_u64();
    return any;
}

void h_permute(void)
{
    ascon_state_t *st;
    uint8_t r = nondet_u8();
    __CPROVER_assume(r <= 12);   /* C08: start rounds 0..11 (12: no rounds) */
    verif_T0 = any_state(); verif_T1 = any_state(); verif_T2 = any_state(); verif_T3 = any_state();
    verif_T4 = any_state(); verif_T5 = any_state(); verif_T6 = any_state(); verif_T7 = any_state();
    verif_T8 = any_state(); verif_T9 = any_state(); verif_T10 = any_state(); verif_T11 = any_state();
    verif_T12 = any_state();
#if defined(VERIF_STAGE_A)
    ascon_state_t any;
    verif_kk = nondet_unsigned();
    __CPROVER_assume(verif_kk < 12);
    verif_A_pre = any_state();
    verif_A_post = ref_round(verif_A_pre, verif_kk);
    st = &any;
    ascon_permute(st, r);
#else
    verif_r0 = VERIF_IDX(r);
    /* the contract's requires clause makes *st a fresh 40-byte object with
     * canon(*st) == T[r']; T[r'] is unconstrained, so *st is any state */
    ascon_permute(st, r);
#endif
    VERIF_REACH_POINT("h_permute end");
}
