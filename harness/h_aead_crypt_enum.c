/* L1 step proof / plumbing check of ascon_aead_encrypt_8/16, ascon_aead_decrypt_8/16
 * by ENUMERATION of every (entry position, length) pair below the bound with
 * constant-bound loops - so that every offset and size is a constant on each
 * path - and fully symbolic state, data bytes and round number.  For each pair:
 * exactly-sized fresh buffers (dest == src when -DVERIF_ALIAS), the byte-serial
 * specification is run first, then the real function; asserted: every output
 * byte, the whole canonical state, the returned position.  The function is
 * not wrapped by DFCC here (the write-set instrumentation of many calls is
 * what makes symex slow); its frame is obtained from exact-size objects: a
 * write outside dest[0..len) or the 40 state bytes is a failed bounds
 * obligation, and the library has no mutable globals (C16 scan).
 * ascon_permute is replaced by its abstract contract. */
#include <ascon/permutation.h>
#include "verif_harness.h"
#include "verif_canon.h"
#include "spec_sponge.h"
#include "aead/ascon-aead-common.h"

static unsigned char exp_out[VERIF_LEN_BOUND];
static unsigned char in_copy[VERIF_LEN_BOUND];

static void one_case(unsigned char partial, size_t len)
{
    ascon_state_t st;
    spec_state exp_state;
    unsigned exp_pos = partial;
    uint8_t r = nondet_u8();
    unsigned char *src = malloc(len), *dest;
    unsigned char ret;
    size_t j;
    __CPROVER_assume(r <= 12);
    __CPROVER_assume(src != 0);
    for (j = 0; j < 40; ++j)
        st.B[j] = nondet_u8();      /* arbitrary state */
#if defined(VERIF_ALIAS)
    dest = src;
#else
    dest = malloc(len);
    __CPROVER_assume(dest != 0);
#endif
    for (j = 0; j < len; ++j)
        in_copy[j] = src[j];
#if defined(VERIF_DECRYPT)
    exp_state = spec_decrypt_run(verif_canon(&st), &exp_pos, in_copy, exp_out, len, VERIF_RATE, r);
#else
    exp_state = spec_encrypt_run(verif_canon(&st), &exp_pos, in_copy, exp_out, len, VERIF_RATE, r);
#endif
    ret = VERIF_FN(&st, dest, src, len, r, partial);
    __CPROVER_assert(ret == exp_pos, "returned position equals (partial + len) mod rate");
    __CPROVER_assert(spec_eq(verif_canon(&st), exp_state), "state equals the byte-serial duplex specification");
    for (j = 0; j < len; ++j)
        __CPROVER_assert(dest[j] == exp_out[j], "every output byte equals the byte-serial duplex specification");
#if !defined(VERIF_ALIAS)
    for (j = 0; j < len; ++j)
        __CPROVER_assert(src[j] == in_copy[j], "input bytes untouched");
#endif
}

void h_aead_crypt_enum(void)
{
    /* entry position: compile-time constant VERIF_PARTIAL (the groups of a
     * property cover 0..rate-1); every length below the bound, each as a
     * constant on its own path */
    size_t l;
    for (l = 0; l < VERIF_LEN_BOUND; ++l)
        if (nondet_bool())
            one_case((unsigned char)VERIF_PARTIAL, l);
    VERIF_REACH_POINT("h_aead_crypt_enum end");
}
