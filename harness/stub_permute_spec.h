/* ascon_permute and the hash initialisers as specification stubs, for L2 groups
 * that are checked by plain assertions instead of DFCC-enforced contracts
 * (the DFCC instrumentation of these long compositions produces >10^7 clauses).
 * They state exactly what contracts/c_permute_abstract.h and the XINIT_ABSTRACT
 * contracts state. */
#ifndef STUB_PERMUTE_SPEC_H
#define STUB_PERMUTE_SPEC_H
#include <ascon/permutation.h>
#include <ascon/hash.h>
#include "verif_canon.h"
#include "spec_sponge.h"

void ascon_permute(ascon_state_t *state, uint8_t first_round)
{
    spec_state s;
    __CPROVER_assert(first_round <= 12, "ascon_permute precondition: first_round <= 12");
    s = verif_canon(state);
    s = spec_P(s, first_round);
    verif_set_canon(state, s);
}
static inline void stub_hash_initial(ascon_state_t *st, uint32_t hi, uint32_t lbits)
{
    spec_state iv; iv.x[0] = (((uint64_t)hi) << 32) | lbits; iv.x[1] = iv.x[2] = iv.x[3] = iv.x[4] = 0;
    verif_set_canon(st, spec_P(iv, 0));
}
void ascon_hash_init(ascon_hash_state_t *state) { stub_hash_initial(&state->xof.state, 0x00400c00u, 256); state->xof.count = 0; state->xof.mode = 0; }
void ascon_hasha_init(ascon_hasha_state_t *state) { stub_hash_initial(&state->xof.state, 0x00400c04u, 256); state->xof.count = 0; state->xof.mode = 0; }
/* re-initialising a used hash object == initialising a fresh one (enforced under C07) */
void ascon_hash_reinit(ascon_hash_state_t *state) { ascon_hash_init(state); }
void ascon_hasha_reinit(ascon_hasha_state_t *state) { ascon_hasha_init(state); }
#endif
