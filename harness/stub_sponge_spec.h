/* Specification stubs for the L1 sponge functions, used by L2 compositions
 * whose internal buffers are rewritten between absorb calls (HMAC pad block,
 * HKDF T(i), PBKDF2 U), so that a summary keyed on buffer IDENTITY would be
 * unsound (DESIGN 3.2).  The stub is the L1 contract in executable form:
 *   - inputs/outputs of at most VERIF_CONTENT_MAX bytes: the byte-serial
 *     automaton of spec/spec_xof.h applied to the CONTENTS (exactly what the L1
 *     contracts enforce on the real functions), with the abstract permutation;
 *   - longer (caller-supplied) data: the identity summary, as in
 *     contracts/c_sponge_summary.h, recorded in the ghost log.
 * The real functions of /repo are renamed out of the way at compile time
 * (-Dascon_xof_absorb=verif_real_...), everything else is the real code. */
#ifndef STUB_SPONGE_SPEC_H
#define STUB_SPONGE_SPEC_H
#include <ascon/xof.h>
#include "verif_canon.h"
#include "spec_xof.h"
#include "spec_aead.h"

#ifndef VERIF_CONTENT_MAX
#define VERIF_CONTENT_MAX 64
#endif
#define STUB_MAX_LEN ((size_t)1 << 40)

typedef struct { unsigned count; const void *buf; size_t len; spec_state in; unsigned in_count, in_mode; } stub_log_t;
extern stub_log_t stub_absorb_log, stub_squeeze_log;
/* the caller-supplied long message of this harness: always summarised by identity.
 * (Its length is constrained by an assumption, which symex cannot use to prune the
 * content branch; comparing the pointer can.) */
extern const void *stub_long_buf;

#define STUB_LOAD(sp, xp) do { (sp).s = verif_canon(&(xp)->state); (sp).count = (xp)->count; (sp).mode = (xp)->mode; } while (0)
#define STUB_STORE(xp, sp) do { verif_set_canon(&(xp)->state, (sp).s); (xp)->count = (unsigned char)(sp).count; (xp)->mode = (unsigned char)(sp).mode; } while (0)

#define STUB_ABSORB(NAME, T, PARAMS, TAG, RIN, ROUT) \
void NAME(T *state, const unsigned char *in, size_t inlen) \
{ \
    spec_sponge sp; \
    __CPROVER_assert(__CPROVER_rw_ok(state, sizeof(*state)), #NAME " precondition: valid state object"); \
    __CPROVER_assert(state->mode <= 1 && state->count < (state->mode ? (ROUT) : (RIN)), #NAME " precondition: count/mode in range"); \
    __CPROVER_assert(inlen <= STUB_MAX_LEN && (inlen == 0 || __CPROVER_r_ok(in, inlen)), #NAME " precondition: readable input of inlen bytes"); \
    STUB_LOAD(sp, state); \
    if ((stub_long_buf == 0 || (const void *)in != stub_long_buf) && inlen <= VERIF_CONTENT_MAX) \
        sp = spec_sponge_absorb_v(&PARAMS, sp, in, inlen); \
    else { \
        stub_absorb_log.count++; stub_absorb_log.buf = in; stub_absorb_log.len = inlen; \
        stub_absorb_log.in = sp.s; stub_absorb_log.in_count = sp.count; stub_absorb_log.in_mode = sp.mode; \
        sp.s = spec_l1(TAG, sp.s, in, inlen, sp.count, sp.mode != 0); \
        sp.count = (unsigned)(((sp.mode ? 0 : sp.count) + inlen) % (RIN)); sp.mode = 0; \
    } \
    STUB_STORE(state, sp); \
}

#define STUB_SQUEEZE(NAME, T, PARAMS, TAG, RIN, ROUT) \
void NAME(T *state, unsigned char *out, size_t outlen) \
{ \
    spec_sponge sp; \
    __CPROVER_assert(__CPROVER_rw_ok(state, sizeof(*state)), #NAME " precondition: valid state object"); \
    __CPROVER_assert(state->mode <= 1 && state->count < (state->mode ? (ROUT) : (RIN)), #NAME " precondition: count/mode in range"); \
    __CPROVER_assert(outlen <= STUB_MAX_LEN && (outlen == 0 || __CPROVER_w_ok(out, outlen)), #NAME " precondition: writable output of outlen bytes"); \
    STUB_LOAD(sp, state); \
    if ((stub_long_buf == 0 || (const void *)out != stub_long_buf) && outlen <= VERIF_CONTENT_MAX) \
        sp = spec_sponge_squeeze_v(&PARAMS, sp, out, outlen); \
    else { \
        stub_squeeze_log.count++; stub_squeeze_log.buf = out; stub_squeeze_log.len = outlen; \
        stub_squeeze_log.in = sp.s; stub_squeeze_log.in_count = sp.count; stub_squeeze_log.in_mode = sp.mode; \
        __CPROVER_havoc_slice(out, outlen); \
        sp.s = spec_l1(TAG, sp.s, 0, outlen, sp.count, sp.mode != 0); \
        sp.count = (unsigned)(((sp.mode ? sp.count : 0) + outlen) % (ROUT)); sp.mode = 1; \
    } \
    STUB_STORE(state, sp); \
}

#endif
