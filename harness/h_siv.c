/* C06 (SIV part): ascon128/128a/80pq_siv_encrypt/_decrypt against the documented two-pass construction
 * (spec/spec_siv.h, written from doc/siv.dox) over the abstract permutation, for every key, nonce, AD and
 * message content at the constant lengths of the group (VERIF_ADLEN, VERIF_MLEN around the block boundaries).
 * Real code: the entry point and its static helpers, ascon_aead_absorb_8/16, the state byte operations,
 * ascon_aead_check_tag, ascon_clean.  Specification stub: ascon_permute = spec_P (C08).
 * Plain-assertion group: exactly sized buffers, so any access outside them is a failed bounds obligation. */
#include <ascon/siv.h>
#include "verif_harness.h"
#include "spec_siv.h"
#include "stub_permute_spec.h"

#ifndef VERIF_ADLEN
#define VERIF_ADLEN 0
#endif
#ifndef VERIF_MLEN
#define VERIF_MLEN 0
#endif

void h_siv(void)
{
    const spec_aead_params *pa = &VERIF_SIV_PARAMS;
    unsigned char key[VERIF_SIV_KEYLEN], key0[VERIF_SIV_KEYLEN], npub[16], ad[VERIF_ADLEN + 1], tag[16];
    size_t i, outlen = 12345;
    for (i = 0; i < VERIF_SIV_KEYLEN; ++i) key0[i] = key[i] = nondet_u8();
    for (i = 0; i < 16; ++i) npub[i] = nondet_u8();
    for (i = 0; i < VERIF_ADLEN; ++i) ad[i] = nondet_u8();
#if defined(VERIF_SIV_ENCRYPT)
    {
        unsigned char m[VERIF_MLEN + 1], c[VERIF_MLEN + 16], ec[VERIF_MLEN + 1];
        for (i = 0; i < VERIF_MLEN; ++i) m[i] = nondet_u8();
        spec_siv_auth(pa, key, npub, ad, VERIF_ADLEN, m, VERIF_MLEN, tag);
        spec_siv_stream(pa, key, tag, m, ec, VERIF_MLEN);
        VERIF_SIV_FN(c, &outlen, m, VERIF_MLEN, VERIF_ADLEN ? (const unsigned char *)ad : (const unsigned char *)0, VERIF_ADLEN, npub, key);
        __CPROVER_assert(outlen == VERIF_MLEN + 16, "SIV encrypt: *clen == mlen + 16");
        for (i = 0; i < 16; ++i) __CPROVER_assert(c[VERIF_MLEN + i] == tag[i], "SIV encrypt: tag = authentication pass over (K, N, A, P) as documented");
        for (i = 0; i < VERIF_MLEN; ++i) __CPROVER_assert(c[i] == ec[i], "SIV encrypt: ciphertext = P xor keystream of the pass keyed with the tag as nonce");
    }
#else
    {
        unsigned char c[VERIF_MLEN + 16], m[VERIF_MLEN + 1], em[VERIF_MLEN + 1]; int r, eq = 1;
        for (i = 0; i < VERIF_MLEN + 16; ++i) c[i] = nondet_u8();
        spec_siv_stream(pa, key, c + VERIF_MLEN, c, em, VERIF_MLEN);
        spec_siv_auth(pa, key, npub, ad, VERIF_ADLEN, em, VERIF_MLEN, tag);
        for (i = 0; i < 16; ++i) if (c[VERIF_MLEN + i] != tag[i]) eq = 0;
        r = VERIF_SIV_FN(m, &outlen, c, VERIF_MLEN + 16, VERIF_ADLEN ? (const unsigned char *)ad : (const unsigned char *)0, VERIF_ADLEN, npub, key);
        __CPROVER_assert(r == (eq ? 0 : -1), "SIV decrypt: 0 exactly when the received tag equals the tag recomputed over the decrypted plaintext");
        __CPROVER_assert(outlen == VERIF_MLEN, "SIV decrypt: *mlen == clen - 16");
        for (i = 0; i < VERIF_MLEN; ++i) __CPROVER_assert(m[i] == (eq ? em[i] : 0), "SIV decrypt: plaintext = C xor keystream(tag); zeroed on failure");
    }
#endif
    for (i = 0; i < VERIF_SIV_KEYLEN; ++i) __CPROVER_assert(key[i] == key0[i], "the key is not modified");
    VERIF_REACH_POINT("h_siv end");
}
