/* C09: the library's own acquire/release balance checker (-DASCON_FORCE_GENERIC
 * -DASCON_CHECK_ACQUIRE_RELEASE) never aborts in single-threaded use: from a
 * released state, each incremental sponge function returns with the state
 * released again and abort() unreachable, for every sampled (count, mode,
 * length).  src/core/ascon-direct-xor.c is included verbatim to reach its
 * file-scope flag; the permutation is a frame-only stub (it does not touch the flag). */
#include <stdio.h>
#include <stdlib.h>
#include "../../repo/src/core/ascon-direct-xor.c"
#include <ascon/xof.h>
#include <ascon/prf.h>
#include "verif_harness.h"

void abort(void) { __CPROVER_assert(0, "abort() reached: acquire and release operations are not balanced"); __CPROVER_assume(0); }
void ascon_permute(ascon_state_t *state, uint8_t first_round) { unsigned i; (void)first_round; for (i = 0; i < 40; ++i) state->B[i] = nondet_u8(); }

void h_acqrel(void)
{
    VERIF_T st; unsigned i; unsigned char *buf = malloc(VERIF_LEN);
    __CPROVER_assume(buf != 0);
    for (i = 0; i < 40; ++i) st.state.B[i] = nondet_u8();
    st.count = VERIF_COUNT; st.mode = VERIF_MODE;
    acquired = 0;
    VERIF_FN(&st, buf, VERIF_LEN);
    __CPROVER_assert(acquired == 0, "the function returns with the permutation state released");
    VERIF_REACH_POINT("h_acqrel end");
}
