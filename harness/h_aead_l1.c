/* L1 harness for the data loops of ascon-aead-common.c */
#include <ascon/permutation.h>
#include "verif_harness.h"
#include "aead/ascon-aead-common.h"

const unsigned char *verif_d0;
size_t verif_len0;

void h_aead_l1(void)
{
#if defined(VERIF_CALL_ascon_aead_absorb_8) || defined(VERIF_CALL_ascon_aead_absorb_16)
    ascon_state_t *st; const unsigned char *data; size_t len = nondet_size();
    uint8_t r = nondet_u8(); int lp = nondet_int();
#if defined(VERIF_CALL_ascon_aead_absorb_8)
    ascon_aead_absorb_8(st, data, len, r, lp);
#else
    ascon_aead_absorb_16(st, data, len, r, lp);
#endif
#endif
    VERIF_REACH_POINT("h_aead_l1 end");
}
