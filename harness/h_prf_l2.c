/* L2 harness for the ASCON-PRF family: every key, message and length (< 2^40). */
#include <ascon/prf.h>
#include "verif_harness.h"
#include "verif_canon.h"
#include "spec_xof.h"
#include "c_sponge_summary.h"

spec_sponge verif_exp;
spec_state verif_exp_sq_in;
unsigned verif_exp_sq_count;
uint8_t verif_exp_out[16];
size_t verif_i;
verif_sponge_log_t verif_squeeze_log, verif_absorb_log;
#define MAXLEN ((size_t)1 << 40)
#define XCLAMP(outlen) ((outlen) >= (((size_t)1) << 29) ? (size_t)0 : (outlen))

/* Ascon-PRF initial state: p^12( IV || K || 0^128 ), IV = 0x80 0x80 0x8c 0x00 || output bits (32 bit, 0 = arbitrary) */
static spec_state prf_initial(const unsigned char *key, size_t outlen_decl)
{
    spec_state s; unsigned i;
    s.x[0] = 0x80808c0000000000ULL | (uint64_t)(uint32_t)(XCLAMP(outlen_decl) * 8);
    s.x[1] = 0; s.x[2] = 0; s.x[3] = 0; s.x[4] = 0;
    for (i = 0; i < 16; ++i) s = spec_xor(s, 8 + i, key[i]);
    return spec_P(s, 0);
}
static void expect_prf(const unsigned char *key, size_t outlen_decl, const void *in, size_t inlen)
{
    unsigned j, b;
    verif_exp.s = prf_initial(key, outlen_decl); verif_exp.count = 0; verif_exp.mode = 0;
    verif_exp_sq_in = spec_l1(SP_TAG_PRF_ABSORB, verif_exp.s, in, inlen, 0, 0);
    verif_exp_sq_count = (unsigned)(inlen % 32);
    for (j = 0; j < 2; ++j) {
        uint64_t w = SP_SQW(SP_TAG_PRF_SQUEEZE, verif_exp_sq_in.x[0], verif_exp_sq_in.x[1], verif_exp_sq_in.x[2], verif_exp_sq_in.x[3],
                            verif_exp_sq_in.x[4], SP_CM(verif_exp_sq_count, 0), j);
        for (b = 0; b < 8; ++b) verif_exp_out[8 * j + b] = (uint8_t)(w >> (56 - 8 * b));
    }
}

void h_prf_l2(void)
{
    size_t inlen = nondet_size(), outlen = nondet_size();
    unsigned char *key = malloc(16), *in, *out;
    __CPROVER_assume(key != 0 && inlen <= MAXLEN && outlen <= MAXLEN);
    verif_i = nondet_size();
    verif_absorb_log.count = 0; verif_squeeze_log.count = 0;
    if (inlen == 0 && nondet_bool()) in = 0; else { in = malloc(inlen); __CPROVER_assume(in != 0); }
#if defined(VERIF_ENFORCE_prf_fixed_init)
    { ascon_prf_state_t *st = malloc(sizeof(*st)); __CPROVER_assume(st != 0);
      verif_exp.s = prf_initial(key, outlen); verif_exp.count = 0; verif_exp.mode = 0;
      ascon_prf_fixed_init(st, key, outlen); }
#elif defined(VERIF_ENFORCE_prf_init)
    { ascon_prf_state_t *st = malloc(sizeof(*st)); __CPROVER_assume(st != 0);
      verif_exp.s = prf_initial(key, 0); verif_exp.count = 0; verif_exp.mode = 0;
      ascon_prf_init(st, key); }
#elif defined(VERIF_ENFORCE_prf)
    out = malloc(outlen); __CPROVER_assume(out != 0);
    expect_prf(key, 0, in, inlen);
    ascon_prf(out, outlen, in, inlen, key);
#elif defined(VERIF_ENFORCE_prf_fixed)
    out = malloc(outlen); __CPROVER_assume(out != 0);
    expect_prf(key, outlen, in, inlen);
    ascon_prf_fixed(out, outlen, in, inlen, key);
#elif defined(VERIF_ENFORCE_mac)
    out = malloc(16); __CPROVER_assume(out != 0);
    expect_prf(key, 16, in, inlen);
    ascon_mac(out, in, inlen, key);
#elif defined(VERIF_ENFORCE_mac_verify)
    out = malloc(16); __CPROVER_assume(out != 0);     /* the tag to verify: arbitrary */
    expect_prf(key, 16, in, inlen);
    ascon_mac_verify(out, in, inlen, key);
#elif defined(VERIF_ENFORCE_prf_short)
    {   /* Ascon-PRFshort: T = (p^12(IV || K || M || 0*) last 128 bits xor K) truncated; IV = 0x80 || 8*|M| || 0x4c || 0x80 || 0^32 */
        spec_state s; unsigned i;
        out = malloc(outlen); __CPROVER_assume(out != 0);
        if (inlen <= 16 && outlen <= 16) {
            s.x[0] = 0x80004c8000000000ULL | ((uint64_t)(uint8_t)(inlen * 8) << 48);
            s.x[1] = 0; s.x[2] = 0; s.x[3] = 0; s.x[4] = 0;
            for (i = 0; i < 16; ++i) s = spec_xor(s, 8 + i, key[i]);
            for (i = 0; i < 16; ++i) if (i < inlen) s = spec_xor(s, 24 + i, in[i]);
            s = spec_P(s, 0);
            for (i = 0; i < 16; ++i) verif_exp_out[i] = (uint8_t)(spec_get(s, 24 + i) ^ key[i]);
        }
        ascon_prf_short(out, outlen, in, inlen, key);
    }
#endif
    VERIF_REACH_POINT("h_prf_l2 end");
}
