/* Generic harness: call the one function whose contract is enforced with
 * unconstrained arguments; the contract's requires clauses (assumed by DFCC)
 * shape the inputs, its ensures/assigns clauses are the obligations.
 * -DVERIF_CALL_<function> selects the call. */
#include <ascon/permutation.h>
#include <ascon/aead.h>
#include <ascon/utility.h>
#include "verif_harness.h"

unsigned verif_i;
uint8_t verif_snap;   /* ghost indices: unconstrained, so clauses over them hold for every index */

/* offsets and sizes are arbitrary unless the group fixes them (enumerated constants for the 32-bit bit-sliced backend,
 * where symbolic offsets through the bit de-interleaving exhaust the solver) */
#if defined(VERIF_OFFSET)
#define VERIF_OFFSET_OR_ANY VERIF_OFFSET
#define VERIF_SIZE_OR_ANY VERIF_SIZE
#else
#define VERIF_OFFSET_OR_ANY nondet_unsigned()
#define VERIF_SIZE_OR_ANY nondet_unsigned()
#endif
void h_call(void)
{
    verif_i = nondet_unsigned();
    verif_snap = nondet_u8();
#if defined(VERIF_CALL_ascon_add_bytes)
    ascon_state_t *st; const uint8_t *data; unsigned offset = VERIF_OFFSET_OR_ANY, size = VERIF_SIZE_OR_ANY;
    ascon_add_bytes(st, data, offset, size);
#elif defined(VERIF_CALL_ascon_overwrite_bytes)
    ascon_state_t *st; const uint8_t *data; unsigned offset = VERIF_OFFSET_OR_ANY, size = VERIF_SIZE_OR_ANY;
    ascon_overwrite_bytes(st, data, offset, size);
#elif defined(VERIF_CALL_ascon_overwrite_with_zeroes)
    ascon_state_t *st; unsigned offset = VERIF_OFFSET_OR_ANY, size = VERIF_SIZE_OR_ANY;
    ascon_overwrite_with_zeroes(st, offset, size);
#elif defined(VERIF_CALL_ascon_extract_bytes)
    ascon_state_t *st; uint8_t *data; unsigned offset = VERIF_OFFSET_OR_ANY, size = VERIF_SIZE_OR_ANY;
    ascon_extract_bytes(st, data, offset, size);
#elif defined(VERIF_CALL_ascon_extract_and_add_bytes)
    ascon_state_t *st; const uint8_t *in; uint8_t *out; unsigned offset = VERIF_OFFSET_OR_ANY, size = VERIF_SIZE_OR_ANY;
    ascon_extract_and_add_bytes(st, in, out, offset, size);
#elif defined(VERIF_CALL_ascon_extract_and_overwrite_bytes)
    ascon_state_t *st; const uint8_t *in; uint8_t *out; unsigned offset = VERIF_OFFSET_OR_ANY, size = VERIF_SIZE_OR_ANY;
    ascon_extract_and_overwrite_bytes(st, in, out, offset, size);
#elif defined(VERIF_CALL_ascon_init)
    ascon_state_t *st;
    ascon_init(st);
#elif defined(VERIF_CALL_ascon_copy)
    ascon_state_t *d; const ascon_state_t *s;
    ascon_copy(d, s);
#elif defined(VERIF_CALL_ascon_aead_increment_nonce)
    unsigned char *n;
    ascon_aead_increment_nonce(n);
#elif defined(VERIF_CALL_ascon_aead_set_counter)
    unsigned char *n; uint64_t v = nondet_u64();
    ascon_aead_set_counter(n, v);
#else
#error "h_call: no call selected"
#endif
    VERIF_REACH_POINT("h_call end");
}
