/* C04/C05: ASCON-KMAC(A), ASCON-KDF(A) and ASCON-PBKDF2 - compositions over the
 * customised XOF - against their documented definitions; XOF absorb/squeeze and
 * the permutation are specification stubs, everything else is the real code
 * (ascon_xof_init_custom, ascon_xof_absorb_custom, copy, pad, free, ...).
 * Plain-assertion groups; buffer lengths are constants of the group or "long"
 * (any length above 64, summarised by identity). */
#include <ascon/kmac.h>
#include <ascon/kdf.h>
#include <ascon/pbkdf2.h>
#include <ascon/xof.h>
#include <string.h>
#include "verif_harness.h"
#include "stub_sponge_spec.h"
#include "stub_permute_spec.h"
#include "spec_perm.h"

stub_log_t stub_absorb_log, stub_squeeze_log;
const void *stub_long_buf;
STUB_ABSORB(ascon_xof_absorb, ascon_xof_state_t, SPEC_XOF, 11u, 8, 8)
STUB_SQUEEZE(ascon_xof_squeeze, ascon_xof_state_t, SPEC_XOF, 12u, 8, 8)
STUB_ABSORB(ascon_xofa_absorb, ascon_xofa_state_t, SPEC_XOFA, 13u, 8, 8)
STUB_SQUEEZE(ascon_xofa_squeeze, ascon_xofa_state_t, SPEC_XOFA, 14u, 8, 8)

#if defined(VARIANT_A)
#define PP SPEC_XOFA
#define XIVHI 0x00400c04u
#define TAGA 13u
#define RCUSTOM 4
#define FN(x) ascon_##x##a
#else
#define PP SPEC_XOF
#define XIVHI 0x00400c00u
#define TAGA 11u
#define RCUSTOM 0
#define FN(x) ascon_##x
#endif
#define XCLAMP(outlen) ((outlen) >= (((size_t)1) << 29) ? (size_t)0 : (outlen))

static void R_absorb(spec_sponge *h, const unsigned char *buf, size_t len)
{
    if ((stub_long_buf == 0 || (const void *)buf != stub_long_buf) && len <= VERIF_CONTENT_MAX) *h = spec_sponge_absorb_v(&PP, *h, buf, len);
    else { h->s = spec_l1(TAGA, h->s, buf, len, h->count, h->mode != 0); h->count = (unsigned)(((h->mode ? 0 : h->count) + len) % 8); h->mode = 0; }
}
/* cXOF initial state: p^12(IV(L) || N padded), then the customisation string C (absorb, pad, permute, separator) */
static spec_sponge R_cxof(const char *name, const unsigned char *custom, size_t customlen, size_t outlen_decl)
{
    spec_sponge h; unsigned i, k, n = 0; uint8_t nm[32];
    for (i = 0; i < 32; ++i) nm[i] = 0;
    while (name[n]) { nm[n] = (uint8_t)name[n]; ++n; }
    h.s.x[0] = (((uint64_t)XIVHI) << 32) | (uint64_t)(uint32_t)(XCLAMP(outlen_decl) * 8);
    for (i = 0; i < 4; ++i) { h.s.x[1 + i] = 0; for (k = 0; k < 8; ++k) h.s.x[1 + i] = (h.s.x[1 + i] << 8) | nm[8 * i + k]; }
    h.s = spec_P(h.s, 0); h.count = 0; h.mode = 0;
    if (customlen > 0) { R_absorb(&h, custom, customlen); h.s = spec_separator(spec_P(spec_pad(h.s, h.count), RCUSTOM)); h.count = 0; }
    return h;
}


#if defined(OP_pbkdf2)
/* C13 (stack temporaries of the one-shot): ascon-pbkdf2.c is compiled with ascon_xof_init_custom / ascon_xof_copy /
 * ascon_xof_free / ascon_clean renamed to these ghost wrappers, which keep the set of XOF state objects that hold
 * password-derived data and count the non-elidable wipes, then call the real functions. */
static size_t verif_live[4]; static unsigned verif_nlive, verif_clean_calls, verif_clean_partial;
static void live_add(const void *p) { size_t id = __CPROVER_POINTER_OBJECT(p); unsigned i; for (i = 0; i < 4; ++i) if (i < verif_nlive && verif_live[i] == id) return; if (verif_nlive < 4) verif_live[verif_nlive] = id; verif_nlive++; }
static void live_del(const void *p) { size_t id = __CPROVER_POINTER_OBJECT(p); unsigned i; for (i = 0; i < 4; ++i) if (i < verif_nlive && verif_live[i] == id) { verif_live[i] = verif_live[verif_nlive - 1]; verif_nlive--; return; } }
void verif_ghost_xof_init_custom(ascon_xof_state_t *state, const char *fn, const unsigned char *custom, size_t customlen, size_t outlen)
{ live_add(state); ascon_xof_init_custom(state, fn, custom, customlen, outlen); }
void verif_ghost_xof_copy(ascon_xof_state_t *dest, const ascon_xof_state_t *src) { live_add(dest); ascon_xof_copy(dest, src); }
void verif_ghost_xof_free(ascon_xof_state_t *state) { live_del(state); ascon_xof_free(state); }
void ascon_clean(void *buf, unsigned size);
void verif_ghost_clean(void *buf, unsigned size)
{ verif_clean_calls++; if (__CPROVER_POINTER_OFFSET(buf) != 0 || __CPROVER_OBJECT_SIZE(buf) != size) verif_clean_partial = 1; ascon_clean(buf, size); }
#endif

#ifndef L1
#define L1 5
#endif
#ifndef L2
#define L2 3
#endif

void h_cxof_kdf(void)
{
    /* two caller buffers: a (length L1 or long) and b (length L2) */
#if defined(A_LONG)
    size_t alen = nondet_size();
#else
    size_t alen = L1;
#endif
    size_t blen = L2;
    unsigned char *a, *b; unsigned i;
#if defined(A_LONG)
    __CPROVER_assume(alen > VERIF_CONTENT_MAX && alen <= ((size_t)1 << 40));
#endif
    a = (alen == 0 && nondet_bool()) ? 0 : malloc(alen); b = (blen == 0 && nondet_bool()) ? 0 : malloc(blen);
    __CPROVER_assume((alen == 0 || a) && (blen == 0 || b));
    stub_long_buf = 0;
#if defined(A_LONG)
    stub_long_buf = a;
#endif
#if defined(OP_kdf) || defined(OP_kmac)
    {   /* KDF: cXOF named "KDF" customised by b, applied to the key a.  KMAC: cXOF named "KMAC" applied to key a then message m */
        unsigned char out[VERIF_OUTLEN + 1], exp[VERIF_OUTLEN + 1]; spec_sponge h;
#if defined(OP_kdf)
        h = R_cxof("KDF", b, blen, VERIF_OUTLEN); R_absorb(&h, a, alen);
        h = spec_sponge_squeeze_v(&PP, h, exp, VERIF_OUTLEN);
        FN(kdf)(out, VERIF_OUTLEN, a, alen, b, blen);
#else
        unsigned char m[4]; for (i = 0; i < 4; ++i) m[i] = nondet_u8();
#if VERIF_OUTLEN == 32
        {   /* output length 32 is served from a pre-computed block (a concrete table): the abstract permutation is
             * instantiated AT THAT ONE POINT with the reference permutation (which ascon_permute equals, C08), so that
             * the table (proved == ref_permute(IV block) by the kmac_table groups) and the reference composition meet */
            spec_state iv, pv, rv;
            iv.x[0] = (((uint64_t)XIVHI) << 32) | 256u; iv.x[1] = 0x4b4d414300000000ULL; iv.x[2] = iv.x[3] = iv.x[4] = 0;
            pv = spec_P(iv, 0); rv = ref_permute(iv, 0);
            __CPROVER_assume(pv.x[0] == rv.x[0] && pv.x[1] == rv.x[1] && pv.x[2] == rv.x[2] && pv.x[3] == rv.x[3] && pv.x[4] == rv.x[4]);
        }
#endif
        h = R_cxof("KMAC", b, blen, VERIF_OUTLEN); R_absorb(&h, a, alen); R_absorb(&h, m, 4);
        h = spec_sponge_squeeze_v(&PP, h, exp, VERIF_OUTLEN);
        FN(kmac)(a, alen, m, 4, b, blen, out, VERIF_OUTLEN);
#endif
        for (i = 0; i < VERIF_OUTLEN; ++i) __CPROVER_assert(out[i] == exp[i], "output == the customised XOF of the documented name applied to the key (then the message)");
    }
#elif defined(OP_pbkdf2)
    {   /* RFC 8018 section 5.2 with PRF(P, X) = cXOF(X, 256 bits, "PBKDF2", P): a = password, b = salt */
        unsigned char out[VERIF_OUTLEN + 1], exp[VERIF_OUTLEN + 32]; spec_sponge base, h; unsigned char u[32], t[32], be[4];
        unsigned long blk; size_t o = 0; unsigned long c, cnt = (VERIF_COUNT == 0) ? 1 : VERIF_COUNT;     /* count 0 is treated as 1 */
        base = R_cxof("PBKDF2", a, alen, 32);
        for (blk = 1; o < VERIF_OUTLEN; ++blk) {
            be[0] = (unsigned char)(blk >> 24); be[1] = (unsigned char)(blk >> 16); be[2] = (unsigned char)(blk >> 8); be[3] = (unsigned char)blk;   /* INT(i), big-endian, from 1 */
            h = base; R_absorb(&h, b, blen); R_absorb(&h, be, 4); h = spec_sponge_squeeze_v(&PP, h, u, 32);
            for (i = 0; i < 32; ++i) t[i] = u[i];
            for (c = 1; c < cnt; ++c) { h = base; R_absorb(&h, u, 32); h = spec_sponge_squeeze_v(&PP, h, u, 32); for (i = 0; i < 32; ++i) t[i] ^= u[i]; }
            for (i = 0; i < 32 && o < VERIF_OUTLEN; ++i) exp[o++] = t[i];        /* last block truncated */
        }
        verif_nlive = 0; verif_clean_calls = 0; verif_clean_partial = 0;
        ascon_pbkdf2(out, VERIF_OUTLEN, a, alen, b, blen, VERIF_COUNT);
        __CPROVER_assert(verif_nlive == 0, "C13: every XOF state that held password-derived data was freed before return, on every path");
        __CPROVER_assert(verif_clean_calls == 1 + ((VERIF_OUTLEN % 32) != 0) && !verif_clean_partial, "C13: the U buffer (and T for a partial last block) are wiped whole with the non-elidable ascon_clean");
        for (i = 0; i < VERIF_OUTLEN; ++i) __CPROVER_assert(out[i] == exp[i], "PBKDF2: T_i = U_1 xor ... xor U_c over the customised-XOF PRF, block index big-endian from 1, last block truncated, count 0 treated as 1");
    }
#endif
    VERIF_REACH_POINT("h_cxof_kdf end");
}
