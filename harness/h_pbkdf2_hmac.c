/* C05: ascon_pbkdf2_hmac == RFC 8018 section 5.2 over ASCON-HMAC (abstract: harness/stub_hmac_model.h; that the real
 * ascon_hmac* compute RFC 2104 is C04): T_i = U_1 xor ... xor U_c, U_1 = HMAC(P, S || INT(i)), U_j = HMAC(P, U_{j-1}),
 * INT(i) big-endian from 1, count 0 treated as 1, last block truncated.  Real code: src/password/ascon-pbkdf2-hmac.c.
 * Constant password/salt lengths, count and output length per group.  Also (C13): the HMAC object holding
 * password-derived state is freed once per block. */
#include <ascon/pbkdf2.h>
#include <ascon/hmac.h>
#include "verif_harness.h"
#define HM_VARIANT 0u
#include "stub_hmac_model.h"
unsigned stub_hmac_free_calls;
HM_STUBS(ascon_hmac, ascon_hmac_state_t)

#ifndef VERIF_PWLEN
#define VERIF_PWLEN 5
#endif
#ifndef VERIF_SALTLEN
#define VERIF_SALTLEN 7
#endif

void h_pbkdf2_hmac(void)
{
    unsigned char pw[VERIF_PWLEN + 1], salt[VERIF_SALTLEN + 1], out[VERIF_OUTLEN + 1], exp[VERIF_OUTLEN + 32], u[32], t[32], be[4];
    unsigned long blk, c, cnt = (VERIF_COUNT == 0) ? 1 : VERIF_COUNT; size_t o = 0, i; unsigned nblocks = 0;
    for (i = 0; i < VERIF_PWLEN; ++i) pw[i] = nondet_u8();
    for (i = 0; i < VERIF_SALTLEN; ++i) salt[i] = nondet_u8();
    for (blk = 1; o < VERIF_OUTLEN; ++blk) {
        be[0] = (unsigned char)(blk >> 24); be[1] = (unsigned char)(blk >> 16); be[2] = (unsigned char)(blk >> 8); be[3] = (unsigned char)blk;
        hm_final(hm_update(hm_update(hm_init(pw, VERIF_PWLEN), salt, VERIF_SALTLEN), be, 4), pw, VERIF_PWLEN, u);
        for (i = 0; i < 32; ++i) t[i] = u[i];
        for (c = 1; c < cnt; ++c) { hm_final(hm_update(hm_init(pw, VERIF_PWLEN), u, 32), pw, VERIF_PWLEN, u); for (i = 0; i < 32; ++i) t[i] ^= u[i]; }
        for (i = 0; i < 32 && o < VERIF_OUTLEN; ++i) exp[o++] = t[i];
        nblocks++;
    }
    stub_hmac_free_calls = 0;
    ascon_pbkdf2_hmac(out, VERIF_OUTLEN, pw, VERIF_PWLEN, salt, VERIF_SALTLEN, VERIF_COUNT);
    for (i = 0; i < VERIF_OUTLEN; ++i) __CPROVER_assert(out[i] == exp[i], "PBKDF2-HMAC: T_i = U_1 xor ... xor U_c over HMAC, block index big-endian from 1, count 0 treated as 1, last block truncated");
    __CPROVER_assert(stub_hmac_free_calls == nblocks, "the HMAC object is freed after every block");
    VERIF_REACH_POINT("h_pbkdf2_hmac end");
}
