/* C10: masked keys (src/masking/ascon-masked-key.c): masking a key and
 * extracting it returns the key for every random tape; re-randomising
 * preserves the value and gives EVERY share fresh randomness (for each share
 * the claim "unchanged for all random values" must be refuted). */
#include <ascon/masking.h>
#include "masking/ascon-masked-word.h"
#include "random/ascon-trng.h"
#include "verif_harness.h"

uint64_t ascon_trng_generate_64(ascon_trng_state_t *state) { (void)state; return nondet_u64(); }
uint32_t ascon_trng_generate_32(ascon_trng_state_t *state) { (void)state; return nondet_u32(); }
int ascon_trng_init(ascon_trng_state_t *state) { (void)state; return 1; }
void ascon_trng_free(ascon_trng_state_t *state) { (void)state; }

#if KEYBITS == 128
#define KT ascon_masked_key_128_t
#define KLEN 16
#define KWORDS 2
#define KINIT ascon_masked_key_128_init
#define KEXTRACT ascon_masked_key_128_extract
#define KRAND ascon_masked_key_128_randomize_with_trng
#else
#define KT ascon_masked_key_160_t
#define KLEN 20
#define KWORDS 6
#define KINIT ascon_masked_key_160_init
#define KEXTRACT ascon_masked_key_160_extract
#define KRAND ascon_masked_key_160_randomize_with_trng
#endif

void h_masked_key(void)
{
    KT mk, mk0;
    unsigned char key[KLEN], out[KLEN], out2[KLEN];
    ascon_trng_state_t trng;
    unsigned i, w, k;
    for (i = 0; i < KLEN; ++i) key[i] = nondet_u8();
#if defined(OP_roundtrip)
    KINIT(&mk, key);
    KEXTRACT(&mk, out);
    for (i = 0; i < KLEN; ++i) __CPROVER_assert(out[i] == key[i], "masking a key then extracting it returns the key, for every random tape");
#elif defined(OP_randomize)
    for (w = 0; w < KWORDS; ++w) for (k = 0; k < 4; ++k) mk.k[w].S[k] = nondet_u64();   /* any masked key */
    mk0 = mk;
    KEXTRACT(&mk0, out);
    KRAND(&mk, &trng);
    KEXTRACT(&mk, out2);
    for (i = 0; i < KLEN; ++i) __CPROVER_assert(out2[i] == out[i], "re-randomising a masked key preserves its value, for every random tape");
    /* one assertion statement per (word, share): CBMC aggregates the iterations of
     * an assertion inside a loop into one property, which would hide a single stale share */
#define STALE(W, K) __CPROVER_assert(mk.k[W].S[K] == mk0.k[W].S[K], "MUSTFAIL share " #K " of key word " #W " receives fresh randomness");
#if ASCON_MASKED_KEY_SHARES == 2
#define STALE_W(W) STALE(W, 0) STALE(W, 1)
#elif ASCON_MASKED_KEY_SHARES == 3
#define STALE_W(W) STALE(W, 0) STALE(W, 1) STALE(W, 2)
#else
#define STALE_W(W) STALE(W, 0) STALE(W, 1) STALE(W, 2) STALE(W, 3)
#endif
    STALE_W(0) STALE_W(1)
#if KWORDS > 2
    STALE_W(2) STALE_W(3) STALE_W(4) STALE_W(5)
#endif
#endif
    VERIF_REACH_POINT("h_masked_key end");
}
