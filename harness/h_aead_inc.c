/* L2 harness for the incremental AEAD API: an ARBITRARY session object (any
 * permutation state, key, nonce, position < rate - i.e. any history), every
 * argument value, every length below 2^40, exactly-sized buffers; null
 * key/nonce/AD where the API allows it.  The reference is evaluated first. */
#include <ascon/aead.h>
#include <string.h>
#include "verif_harness.h"
#include "verif_canon.h"
#include "spec_aead.h"
#include "c_aead_l1_summary.h"

spec_state verif_exp_state, verif_exp_in;
unsigned char verif_exp_nonce[16];
unsigned char verif_exp_key[20];
unsigned verif_exp_posn, verif_exp_in_posn;
uint8_t verif_exp_tag[16];
verif_crypt_log_t verif_crypt_log;
verif_check_log_t verif_check_log;

#define MAXLEN ((size_t)1 << 40)

static void nonce_plus_one(unsigned char out[16], const unsigned char in[16])
{
    /* 128-bit big-endian integer + 1 mod 2^128, written independently of the code */
    uint64_t hi = 0, lo = 0; unsigned i;
    for (i = 0; i < 8; ++i) { hi = (hi << 8) | in[i]; lo = (lo << 8) | in[8 + i]; }
    lo += 1; if (lo == 0) hi += 1;
    for (i = 0; i < 8; ++i) { out[i] = (unsigned char)(hi >> (56 - 8 * i)); out[8 + i] = (unsigned char)(lo >> (56 - 8 * i)); }
}

void h_aead_inc(void)
{
    const spec_aead_params *pa = &VERIF_PARAMS;
    VERIF_T *st = malloc(sizeof(VERIF_T));
    size_t len = nondet_size();
    unsigned i;
    __CPROVER_assume(st != 0 && len <= MAXLEN);
    verif_crypt_log.count = 0;
    verif_check_log.count = 0;
    for (i = 0; i < VERIF_KEYLEN; ++i) verif_exp_key[i] = st->key[i];
    for (i = 0; i < 16; ++i) verif_exp_nonce[i] = st->nonce[i];
#if defined(VERIF_INC_init) || defined(VERIF_INC_reinit)
    {
        unsigned char *k = nondet_bool() ? 0 : malloc(VERIF_KEYLEN);
        unsigned char *n = nondet_bool() ? 0 : malloc(16);
        for (i = 0; i < VERIF_KEYLEN; ++i) verif_exp_key[i] = k ? k[i] : 0;
        for (i = 0; i < 16; ++i) verif_exp_nonce[i] = n ? n[i] : 0;
        verif_exp_posn = 0;
        verif_exp_state.x[0] = verif_exp_state.x[1] = verif_exp_state.x[2] = verif_exp_state.x[3] = verif_exp_state.x[4] = 0;
        VERIF_FN(st, n, k);
    }
#elif defined(VERIF_INC_start)
    {
        unsigned char *ad;
        if (len == 0 && nondet_bool()) ad = 0; else { ad = malloc(len); __CPROVER_assume(ad != 0); }
        verif_exp_state = spec_aead_start(pa, st->key, st->nonce, ad, len);
        nonce_plus_one(verif_exp_nonce, st->nonce);
        verif_exp_posn = 0;
        VERIF_FN(st, ad, len);
    }
#elif defined(VERIF_INC_encrypt_block) || defined(VERIF_INC_decrypt_block)
    {
        unsigned char *in = malloc(len), *out;
        __CPROVER_assume(in != 0 && st->posn < pa->rate);
#if defined(VERIF_ALIAS)
        out = in;
#else
        out = malloc(len);
        __CPROVER_assume(out != 0);
#endif
        verif_exp_in = verif_canon(&st->state);
        verif_exp_in_posn = st->posn;
        verif_exp_state = spec_l1(VERIF_CRYPT_TAG, verif_exp_in, in, len, pa->round_b, st->posn);
        verif_exp_posn = (unsigned)((st->posn + len) % pa->rate);
        VERIF_FN(st, in, out, len);
    }
#elif defined(VERIF_INC_encrypt_finalize)
    {
        unsigned char *tag = malloc(16);
        __CPROVER_assume(tag != 0 && st->posn < pa->rate);
        spec_aead_finalize(pa, verif_canon(&st->state), st->posn, st->key, verif_exp_tag);
        VERIF_FN(st, tag);
    }
#elif defined(VERIF_INC_decrypt_finalize)
    {
        unsigned char *tag = malloc(16);
        __CPROVER_assume(tag != 0 && st->posn < pa->rate);
        spec_aead_finalize(pa, verif_canon(&st->state), st->posn, st->key, verif_exp_tag);
        VERIF_FN(st, tag);
    }
#endif
    VERIF_REACH_POINT("h_aead_inc end");
}
