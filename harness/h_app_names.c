/* C12 (command-line tools): the file-name helpers of apps/asconcrypt/asconcrypt.c,
 * called the way main() calls them for -d: every NUL-terminated argument of
 * length 0..VERIF_NAME_MAX in an exactly-sized buffer.  The tool's I/O buffer
 * constant BUFSIZ (8192) is replaced by 32 for this harness so that names
 * longer than the temporary buffer are within reach; the code is otherwise the
 * real file, included verbatim (its main() renamed). */
#include <stdio.h>
#undef BUFSIZ
#define BUFSIZ 32
#define main asconcrypt_main
#include "../../repo/apps/asconcrypt/asconcrypt.c"
#undef main
#include "verif_harness.h"

void h_app_names(void)
{
    size_t n = nondet_size(), i;
    char *f;
    const char *r;
    __CPROVER_assume(n <= VERIF_NAME_MAX);
    f = malloc(n + 1);
    __CPROVER_assume(f != 0);
    for (i = 0; i < VERIF_NAME_MAX; ++i) if (i < n) __CPROVER_assume(f[i] != 0);
    f[n] = 0;
    if (is_encrypted_filename(f)) {
        r = strip_suffix(f);
        __CPROVER_assert(r == temp_filename, "strip_suffix returns the temporary buffer");
        for (i = 0; i < sizeof(temp_filename); ++i) if (temp_filename[i] == 0) break;
        __CPROVER_assert(i < sizeof(temp_filename), "the stripped name is NUL-terminated inside the temporary buffer");
        __CPROVER_assert(n < 6 || i == (n - 6 < sizeof(temp_filename) - 1 ? n - 6 : sizeof(temp_filename) - 1), "the stripped name is the argument without its 6-character suffix (truncated to the buffer)");
    }
    VERIF_REACH_POINT("h_app_names end");
}
