#include "../../repo/apps/asconcrypt/fileops.h"
#include "verif_harness.h"
int verif_errno, verif_hard_fail, verif_read_failed, verif_write_failed;
unsigned verif_io_calls;
int *__errno_location(void) { return &verif_errno; }
void perror(const char *s) { (void)s; }
void h_fileops(void)
{
    SAFEFILE *f; void *d; size_t len = nondet_size();
    verif_hard_fail = 0;
#if defined(VERIF_ENFORCE_safe_file_read)
    safe_file_read(f, d, len);
#else
    safe_file_write(f, d, len);
#endif
    VERIF_REACH_POINT("h_fileops end");
}
