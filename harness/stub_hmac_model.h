/* Abstract model of ASCON-HMAC / HMACA for compositions built on it (HKDF,
 * PBKDF2-HMAC): HMAC is a keyed function of the transcript of its update calls.
 * The 5-word transcript value H is kept in the hash state words of the object.
 *   init/reinit(key):   H = HM(INIT, 0, key)             key by CONTENT if <= 32 bytes (PRK, password pieces), else by identity
 *   update(buf, len):   H = HM(UPDATE, H, buf)           same rule
 *   finalize(key, out): out = bytes of HM(FINAL, H, key) (32 bytes)
 * Uninterpreted: what is proved with it holds for whatever HMAC computes; that
 * the real ascon_hmac* compute RFC 2104 is C04.  A composition and its reference
 * must present the same sequence of pieces to update(): the pieces of RFC 5869
 * (T(i-1) | info | counter octet) and RFC 8018 (salt | INT(i); U_{j-1}) are used. */
#ifndef STUB_HMAC_MODEL_H
#define STUB_HMAC_MODEL_H
#include <ascon/hmac.h>
#include "verif_canon.h"
#include "spec_perm.h"

uint64_t __CPROVER_uninterpreted_HM0(uint64_t, uint64_t, uint64_t, uint64_t, uint64_t, uint64_t, uint64_t, uint64_t, uint64_t, uint64_t, uint64_t);
uint64_t __CPROVER_uninterpreted_HM1(uint64_t, uint64_t, uint64_t, uint64_t, uint64_t, uint64_t, uint64_t, uint64_t, uint64_t, uint64_t, uint64_t);
uint64_t __CPROVER_uninterpreted_HM2(uint64_t, uint64_t, uint64_t, uint64_t, uint64_t, uint64_t, uint64_t, uint64_t, uint64_t, uint64_t, uint64_t);
uint64_t __CPROVER_uninterpreted_HM3(uint64_t, uint64_t, uint64_t, uint64_t, uint64_t, uint64_t, uint64_t, uint64_t, uint64_t, uint64_t, uint64_t);
uint64_t __CPROVER_uninterpreted_HM4(uint64_t, uint64_t, uint64_t, uint64_t, uint64_t, uint64_t, uint64_t, uint64_t, uint64_t, uint64_t, uint64_t);

typedef struct { uint64_t w[4]; uint64_t len; } hm_piece;
/* a buffer as an argument: contents (packed big-endian, zero padded) up to 32 bytes, identity above */
static inline hm_piece hm_arg(const unsigned char *buf, size_t len)
{
    hm_piece p; unsigned i;
    p.w[0] = p.w[1] = p.w[2] = p.w[3] = 0;
    if (len <= 32) { for (i = 0; i < 32; ++i) if (i < len) p.w[i / 8] |= ((uint64_t)buf[i]) << (56 - 8 * (i % 8)); p.len = len; }
    else { p.w[0] = (uint64_t)buf; p.len = len | ((uint64_t)1 << 63); }
    return p;
}
static inline spec_state hm_apply(unsigned tag, spec_state h, hm_piece p)
{
    spec_state o;
    o.x[0] = __CPROVER_uninterpreted_HM0(tag, h.x[0], h.x[1], h.x[2], h.x[3], h.x[4], p.w[0], p.w[1], p.w[2], p.w[3], p.len);
    o.x[1] = __CPROVER_uninterpreted_HM1(tag, h.x[0], h.x[1], h.x[2], h.x[3], h.x[4], p.w[0], p.w[1], p.w[2], p.w[3], p.len);
    o.x[2] = __CPROVER_uninterpreted_HM2(tag, h.x[0], h.x[1], h.x[2], h.x[3], h.x[4], p.w[0], p.w[1], p.w[2], p.w[3], p.len);
    o.x[3] = __CPROVER_uninterpreted_HM3(tag, h.x[0], h.x[1], h.x[2], h.x[3], h.x[4], p.w[0], p.w[1], p.w[2], p.w[3], p.len);
    o.x[4] = __CPROVER_uninterpreted_HM4(tag, h.x[0], h.x[1], h.x[2], h.x[3], h.x[4], p.w[0], p.w[1], p.w[2], p.w[3], p.len);
    return o;
}
static inline spec_state hm_init(const unsigned char *key, size_t keylen)
{ spec_state z = {{0, 0, 0, 0, 0}}; return hm_apply(HM_VARIANT + 1u, z, hm_arg(key, keylen)); }
static inline spec_state hm_update(spec_state h, const unsigned char *buf, size_t len) { return hm_apply(HM_VARIANT + 2u, h, hm_arg(buf, len)); }
static inline void hm_final(spec_state h, const unsigned char *key, size_t keylen, unsigned char out[32])
{
    spec_state o = hm_apply(HM_VARIANT + 3u, h, hm_arg(key, keylen)); unsigned i;
    for (i = 0; i < 32; ++i) out[i] = (unsigned char)(o.x[i / 8] >> (56 - 8 * (i % 8)));
}

extern unsigned stub_hmac_free_calls;
#define HM_STUBS(P, T) \
void P##_init(T *state, const unsigned char *key, size_t keylen) \
{ __CPROVER_assert(keylen == 0 || __CPROVER_r_ok(key, keylen), #P "_init: readable key"); \
  verif_set_canon(&state->hash.xof.state, hm_init(key, keylen)); state->hash.xof.count = 0; state->hash.xof.mode = 0; } \
void P##_reinit(T *state, const unsigned char *key, size_t keylen) { P##_init(state, key, keylen); } \
void P##_update(T *state, const unsigned char *in, size_t inlen) \
{ __CPROVER_assert(inlen == 0 || __CPROVER_r_ok(in, inlen), #P "_update: readable input"); \
  verif_set_canon(&state->hash.xof.state, hm_update(verif_canon(&state->hash.xof.state), in, inlen)); } \
void P##_finalize(T *state, const unsigned char *key, size_t keylen, unsigned char *out) \
{ __CPROVER_assert(__CPROVER_w_ok(out, 32), #P "_finalize: 32 writable output bytes"); \
  hm_final(verif_canon(&state->hash.xof.state), key, keylen, out); } \
void P##_free(T *state) { unsigned i_; stub_hmac_free_calls++; for (i_ = 0; i_ < 40; ++i_) state->hash.xof.state.B[i_] = 0; state->hash.xof.count = 0; state->hash.xof.mode = 0; }
#endif
