/* C10: the x86-64 ASSEMBLY masked permutations ascon_x2/x3/x4_permute (default masked backend on x86-64),
 * lifted instruction by instruction by tools/lift_x86_64.py on every run, against the reference permutation
 * on the UNMASKED state.  One group per (share count, first_round): see include/ghost_masked_asm.h for the
 * cut obligations.  The round loop (at most 12 iterations) is unwound completely (unwinding assertion).
 * Every share of every word (also the unused ones) and the preserved randomness are arbitrary on entry. */
#include <ascon/masking.h>
#include "masking/ascon-masked-state.h"
#include "ascon-verif-ghost.h"
#include "verif_harness.h"

spec_state verif_T0, verif_T1, verif_T2, verif_T3, verif_T4, verif_T5, verif_T6,
    verif_T7, verif_T8, verif_T9, verif_T10, verif_T11, verif_T12;
unsigned verif_kk, verif_r0;
spec_state verif_A_pre, verif_A_post;
#include "ghost_masked_asm.h"
#include VERIF_LIFTED

#define FIRSTC (VERIF_FIRST < 12 ? VERIF_FIRST : 12)
static uint64_t unmasked(const ascon_masked_state_t *st, unsigned i)
{
    uint64_t v = st->M[i].S[0] ^ VMA_UNROT(st->M[i].S[1], 1);
    if (VERIF_SHARES >= 3) v ^= VMA_UNROT(st->M[i].S[2], 2);
    if (VERIF_SHARES >= 4) v ^= VMA_UNROT(st->M[i].S[3], 3);
    return v;
}
#define SET_T(k) if (FIRSTC == (k)) { verif_T##k = u; }
#define STEP_T(k, k1) if (FIRSTC <= (k)) { verif_T##k1 = ref_round(verif_T##k, k); }

void h_masked_permute_asm(void)
{
    ascon_masked_state_t st; uint64_t pres[VERIF_SHARES - 1]; unsigned i, k; spec_state u;   /* exactly the documented size: one word beyond is a failed bounds obligation */
    __CPROVER_assert(sizeof(ascon_masked_word_t) == 8 * ASCON_MASKED_MAX_SHARES, "masked word layout assumed by the ghost macros (MAX_SHARES shares of 8 bytes)");
    for (i = 0; i < 5; ++i) for (k = 0; k < ASCON_MASKED_MAX_SHARES; ++k) st.M[i].S[k] = nondet_u64();
    for (i = 0; i < VERIF_SHARES - 1; ++i) pres[i] = nondet_u64();
    for (i = 0; i < 5; ++i) u.x[i] = unmasked(&st, i);
    SET_T(0) SET_T(1) SET_T(2) SET_T(3) SET_T(4) SET_T(5) SET_T(6) SET_T(7) SET_T(8) SET_T(9) SET_T(10) SET_T(11) SET_T(12)
    STEP_T(0, 1) STEP_T(1, 2) STEP_T(2, 3) STEP_T(3, 4) STEP_T(4, 5) STEP_T(5, 6) STEP_T(6, 7) STEP_T(7, 8)
    STEP_T(8, 9) STEP_T(9, 10) STEP_T(10, 11) STEP_T(11, 12)
    VERIF_FN(&st, VERIF_FIRST, pres);
    __CPROVER_assert(unmasked(&st, 0) == verif_T12.x[0] && unmasked(&st, 1) == verif_T12.x[1] && unmasked(&st, 2) == verif_T12.x[2] &&
                     unmasked(&st, 3) == verif_T12.x[3] && unmasked(&st, 4) == verif_T12.x[4],
                     "masked asm permutation: unmasked(state') == ref_permute(unmasked(state), first_round) (given the round lemmas of the later rounds)");
    VERIF_REACH_POINT("h_masked_permute_asm end");
}
