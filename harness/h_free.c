/* C13 harness: an arbitrary object (any contents = any history), then the free
 * / clear function; the enforced contract says every named field is zero. */
#include "verif_harness.h"
#include "c_free.h"
size_t verif_i;
void h_free(void)
{
    verif_i = nondet_size();
#if defined(VERIF_FREE_CLEAN)
    { void *b; unsigned n = nondet_unsigned(); ascon_clean(b, n); }
#else
    { VERIF_T *st = malloc(sizeof(VERIF_T)); __CPROVER_assume(st != 0); VERIF_FN(st); }
#endif
    VERIF_REACH_POINT("h_free end");
}
