/* L2 harness for ASCON-HMAC / HMACA against RFC 2104 (every key of every length
 * up to 2^40 - shorter than, equal to and longer than the 64-byte block - and
 * every message). */
#include <ascon/hmac.h>
#include <ascon/hash.h>
#include "verif_harness.h"
#include "stub_sponge_spec.h"
#if defined(VERIF_PLAIN)
#include "stub_permute_spec.h"
#endif

stub_log_t stub_absorb_log, stub_squeeze_log;
const void *stub_long_buf;
uint8_t verif_exp_out[32];
spec_sponge verif_exp;
#define MAXLEN ((size_t)1 << 40)

STUB_ABSORB(ascon_xof_absorb, ascon_xof_state_t, SPEC_XOF, 11u, 8, 8)
STUB_SQUEEZE(ascon_xof_squeeze, ascon_xof_state_t, SPEC_XOF, 12u, 8, 8)
STUB_ABSORB(ascon_xofa_absorb, ascon_xofa_state_t, SPEC_XOFA, 13u, 8, 8)
STUB_SQUEEZE(ascon_xofa_squeeze, ascon_xofa_state_t, SPEC_XOFA, 14u, 8, 8)

/* ---- RFC 2104 over the same hash model ---- */
static void R_init(spec_sponge *h)
{
    spec_state iv; iv.x[0] = (((uint64_t)HIV) << 32) | 256u; iv.x[1] = iv.x[2] = iv.x[3] = iv.x[4] = 0;
    h->s = spec_P(iv, 0); h->count = 0; h->mode = 0;
}
static void R_update(spec_sponge *h, const unsigned char *buf, size_t len)
{
    if ((stub_long_buf == 0 || (const void *)buf != stub_long_buf) && len <= VERIF_CONTENT_MAX) spec_sponge_absorb(&HPARAMS, h, buf, len);
    else { h->s = spec_l1(HTAG_ABSORB, h->s, buf, len, h->count, h->mode != 0);
           h->count = (unsigned)(((h->mode ? 0 : h->count) + len) % 8); h->mode = 0; }
}
static void R_final(spec_sponge *h, unsigned char out[32]) { spec_sponge_squeeze(&HPARAMS, h, out, 32); }

static void R_keyblock(unsigned char kp[64], const unsigned char *key, size_t keylen)
{
    unsigned i;
    for (i = 0; i < 64; ++i) kp[i] = 0;
    if (keylen <= 64) { for (i = 0; i < 64; ++i) if (i < keylen) kp[i] = key[i]; }
    else { spec_sponge h; R_init(&h); R_update(&h, key, keylen); R_final(&h, kp); }   /* long keys are hashed first */
}
static void R_absorb_pad(spec_sponge *h, const unsigned char kp[64], unsigned char pad)
{
    unsigned char block[64]; unsigned i;
    for (i = 0; i < 64; ++i) block[i] = kp[i] ^ pad;
    R_update(h, block, 64);
}
static void R_outer(const unsigned char kp[64], const unsigned char inner[32], unsigned char out[32])
{
    spec_sponge h; R_init(&h); R_absorb_pad(&h, kp, 0x5c); R_update(&h, inner, 32); R_final(&h, out);
}

void h_hmac_l2(void)
{
    /* the key length is a constant per obligation group (the groups enumerate the
     * lengths around the 32-byte chunk and the 64-byte block boundaries and above);
     * the message is either long (any length above VERIF_CONTENT_MAX, summarised
     * by identity) or has the small constant length VERIF_INLEN */
#if defined(VERIF_KEYLEN)
    size_t keylen = VERIF_KEYLEN;
#else
    size_t keylen = nondet_size();
#endif
#if defined(VERIF_INLEN)
    size_t inlen = VERIF_INLEN;
#else
    size_t inlen = nondet_size();
#endif
    unsigned char *key, *in, *out = malloc(32);
    unsigned char kp[64], inner[32];
    spec_sponge h;
    __CPROVER_assume(out != 0 && keylen <= MAXLEN && inlen <= MAXLEN);
#if !defined(VERIF_INLEN)
    __CPROVER_assume(inlen > VERIF_CONTENT_MAX);
#endif
    stub_long_buf = 0;
    if (keylen == 0 && nondet_bool()) key = 0; else { key = malloc(keylen); __CPROVER_assume(key != 0); }
    if (inlen == 0 && nondet_bool()) in = 0; else { in = malloc(inlen); __CPROVER_assume(in != 0); }
#if !defined(VERIF_INLEN)
    stub_long_buf = in;
#endif
    R_keyblock(kp, key, keylen);
#if defined(VERIF_ENFORCE_hmac)
    R_init(&h); R_absorb_pad(&h, kp, 0x36); R_update(&h, in, inlen); R_final(&h, inner);
    R_outer(kp, inner, verif_exp_out);
    VERIF_FN(out, key, keylen, in, inlen);
#if defined(VERIF_PLAIN)
    { unsigned q; for (q = 0; q < 32; ++q) __CPROVER_assert(out[q] == verif_exp_out[q], "HMAC: every output byte equals RFC 2104 over the specified hash"); }
    __CPROVER_assert(stub_absorb_log.count == (inlen > VERIF_CONTENT_MAX ? 1u : 0u) + (keylen > 64 ? 2u : 0u), "HMAC: the message is absorbed exactly once (and a long key once per pass)");
#endif
#elif defined(VERIF_ENFORCE_hmac_init) || defined(VERIF_ENFORCE_hmac_reinit)
    { VERIF_T st_obj, *st = &st_obj;   /* stack object: constants propagate through its fields */
      R_init(&verif_exp); R_absorb_pad(&verif_exp, kp, 0x36);
      VERIF_FN(st, key, keylen);
#if defined(VERIF_PLAIN)
      __CPROVER_assert(spec_eq(verif_canon(&st->hash.xof.state), verif_exp.s) && st->hash.xof.count == verif_exp.count &&
                       st->hash.xof.mode == verif_exp.mode, "HMAC init: the inner hash has absorbed exactly the 64-byte block K' ^ ipad");
#endif
    }
#elif defined(VERIF_ENFORCE_hmac_finalize)
    { VERIF_T st_obj, *st = &st_obj; unsigned q;
      for (q = 0; q < 40; ++q) st->hash.xof.state.B[q] = nondet_u8();   /* arbitrary inner hash state ... */
      st->hash.xof.mode = 0; st->hash.xof.count = VERIF_INNER_COUNT;     /* ... at a constant block position */
      STUB_LOAD(h, &st->hash.xof); R_final(&h, inner);
      R_outer(kp, inner, verif_exp_out);
      VERIF_FN(st, key, keylen, out);
#if defined(VERIF_PLAIN)
      { unsigned q; for (q = 0; q < 32; ++q) __CPROVER_assert(out[q] == verif_exp_out[q], "HMAC finalize: out == H((K' ^ opad) || H(inner))"); }
#endif
    }
#endif
    VERIF_REACH_POINT("h_hmac_l2 end");
}
