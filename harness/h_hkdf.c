/* C05: ASCON-HKDF / HKDFA (src/kdf/ascon-hkdf-common.h) against RFC 5869 over the
 * abstract HMAC model (stub_hmac_model.h).  Plain-assertion groups. */
#include <ascon/hkdf.h>
#include <ascon/hmac.h>
#include <string.h>
#include "verif_harness.h"
#include "stub_hmac_model.h"

unsigned stub_hmac_free_calls;
/* C13: the HKDF source is compiled with ascon_clean renamed to this ghost wrapper, which records the non-elidable wipes */
static unsigned verif_clean_calls, verif_clean_hkdf_state;
void ascon_clean(void *buf, unsigned size);
void verif_ghost_clean(void *buf, unsigned size)
{ verif_clean_calls++; if (__CPROVER_POINTER_OFFSET(buf) == 0 && __CPROVER_OBJECT_SIZE(buf) == size && size == sizeof(HKDF_T)) verif_clean_hkdf_state++; ascon_clean(buf, size); }
#if HM_VARIANT == 0
HM_STUBS(ascon_hmac, ascon_hmac_state_t)
#else
HM_STUBS(ascon_hmaca, ascon_hmaca_state_t)
#endif
#define MAXLEN ((size_t)1 << 40)

/* T(n) = HMAC(PRK, T(n-1) | info | n)   (T(0) empty) */
static void ref_block(const unsigned char prk[32], const unsigned char prev[32], unsigned char n, const unsigned char *info, size_t infolen, unsigned char t[32])
{
    spec_state h = hm_init(prk, 32);
    if (n != 1) h = hm_update(h, prev, 32);
    h = hm_update(h, info, infolen);
    h = hm_update(h, &n, 1);
    hm_final(h, prk, 32, t);
}

void h_hkdf(void)
{
    size_t infolen = nondet_size(), keylen = nondet_size(), saltlen = nondet_size();
    unsigned char *info, *key, *salt;
    unsigned i;
    __CPROVER_assume(infolen <= MAXLEN && keylen <= MAXLEN && saltlen <= MAXLEN);
    info = (infolen == 0 && nondet_bool()) ? 0 : malloc(infolen);
    key = (keylen == 0 && nondet_bool()) ? 0 : malloc(keylen);
    salt = (saltlen == 0 && nondet_bool()) ? 0 : malloc(saltlen);
    __CPROVER_assume((infolen == 0 || info) && (keylen == 0 || key) && (saltlen == 0 || salt));
#if defined(OP_extract)
    {   /* PRK = HMAC(salt, IKM); ready to produce T(1) */
        HKDF_T st; unsigned char prk[32];
        hm_final(hm_update(hm_init(salt, saltlen), key, keylen), salt, saltlen, prk);
        HKDF_FN(_extract)(&st, key, keylen, salt, saltlen);
        for (i = 0; i < 32; ++i) __CPROVER_assert(st.prk[i] == prk[i], "extract: PRK == HMAC(salt, IKM)");
        __CPROVER_assert(st.counter == 1 && st.posn == 32, "extract: the next block is T(1) and no output is buffered");
        __CPROVER_assert(stub_hmac_free_calls == 1, "extract: the HMAC object holding key material is freed");
    }
#elif defined(OP_expand)
    {   /* from an arbitrary expansion state (any PRK, buffered block, counter incl. the wrapped value 0), position
         * VERIF_POSN and request length VERIF_OUTLEN constant: buffered bytes first, then T(counter), T(counter+1), ...;
         * once the 8-bit counter has wrapped: -1 and every remaining byte zero */
        HKDF_T st, s0; unsigned char *out = malloc(VERIF_OUTLEN); unsigned char exp[VERIF_OUTLEN + 1], t[32], prev[32];
        size_t o = 0; unsigned char c; int er = 0, r; unsigned char eposn = VERIF_POSN;
        __CPROVER_assume(out != 0);
        for (i = 0; i < 32; ++i) { st.prk[i] = nondet_u8(); st.out[i] = nondet_u8(); }
        st.counter = nondet_u8(); st.posn = VERIF_POSN; s0 = st; c = st.counter;
        for (i = 0; i < 32; ++i) prev[i] = st.out[i];
        while (o < VERIF_OUTLEN && eposn < 32) exp[o++] = prev[eposn++];
        while (o < VERIF_OUTLEN) {
            if (c == 0) { er = -1; while (o < VERIF_OUTLEN) exp[o++] = 0; break; }
            ref_block(s0.prk, prev, c, info, infolen, t); ++c;
            for (i = 0; i < 32; ++i) prev[i] = t[i];
            eposn = 0; while (o < VERIF_OUTLEN && eposn < 32) exp[o++] = prev[eposn++];
        }
        r = HKDF_FN(_expand)(&st, info, infolen, out, VERIF_OUTLEN);
        __CPROVER_assert(r == er, "expand: 0, or -1 once more than 255 blocks would be needed");
        for (i = 0; i < VERIF_OUTLEN; ++i) __CPROVER_assert(out[i] == exp[i], "expand: buffered bytes, then T(n) = HMAC(PRK, T(n-1) | info | n); zero fill after the limit");
        __CPROVER_assert(er != 0 || (st.counter == c && st.posn == eposn), "expand: counter and position advance with the output");
        for (i = 0; i < 32; ++i) __CPROVER_assert(er != 0 || st.posn == 0 || VERIF_OUTLEN == 0 || st.out[i] == prev[i], "expand: the last block stays buffered for the next call");
    }
#elif defined(OP_oneshot)
    {   /* refuses more than 255 blocks with -1 and writes nothing; otherwise extract-then-expand */
        size_t outlen = nondet_size(); unsigned char *out; int r; unsigned char prk[32], t1[32];
        __CPROVER_assume(outlen <= MAXLEN);
#if defined(VERIF_OUTLEN)
        __CPROVER_assume(outlen == VERIF_OUTLEN);
#else
        __CPROVER_assume(outlen > 8160);
#endif
        out = malloc(outlen > 8160 ? 1 : outlen); __CPROVER_assume(out != 0);
        if (outlen > 8160) out[0] = 0x5a;
        verif_clean_calls = 0; verif_clean_hkdf_state = 0;
        r = HKDF_FN()(out, outlen, key, keylen, salt, saltlen, info, infolen);
        __CPROVER_assert(outlen > 8160 || verif_clean_hkdf_state == 1, "C13: the one-shot wipes its whole HKDF state (PRK, last block) with the non-elidable ascon_clean before returning");
        __CPROVER_assert(r == (outlen > 8160 ? -1 : 0), "one-shot: -1 exactly when more than 255 blocks of 32 bytes are requested");
        __CPROVER_assert(outlen <= 8160 || out[0] == 0x5a, "one-shot: nothing is written when the request is refused");
#if defined(VERIF_OUTLEN) && VERIF_OUTLEN <= 8160
        hm_final(hm_update(hm_init(salt, saltlen), key, keylen), salt, saltlen, prk);
        ref_block(prk, prk, 1, info, infolen, t1);
        for (i = 0; i < VERIF_OUTLEN && i < 32; ++i) __CPROVER_assert(out[i] == t1[i], "one-shot: OKM starts with T(1) = HMAC(PRK, info | 0x01), PRK = HMAC(salt, IKM)");
#endif
    }
#endif
    VERIF_REACH_POINT("h_hkdf end");
}
