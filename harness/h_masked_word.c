/* C10: the masked-word toolkit (src/masking/ascon-masked-word-*.c) computes the
 * unmasked function for EVERY value delivered by the random source and every
 * share pattern.  Loop-free code, fully symbolic inputs: each assertion is a
 * complete proof.  The random source is a stub returning an arbitrary word on
 * every call.  NS = number of shares of the operation under test (2, 3, 4),
 * VERIF_OP selects the operation.  UNMASK(n, w) is the specification: the XOR
 * of the shares after undoing the per-share rotation of the backend. */
#include <ascon/masking.h>
#include "masking/ascon-masked-word.h"
#include "random/ascon-trng.h"
#include "verif_harness.h"
#include "verif_expr.h"

uint64_t ascon_trng_generate_64(ascon_trng_state_t *state) { (void)state; return nondet_u64(); }
uint32_t ascon_trng_generate_32(ascon_trng_state_t *state) { (void)state; return nondet_u32(); }

#if defined(ASCON_MASKED_WORD_BACKEND_DIRECT_XOR)
#define ROTK 0
#define UNROT64(x, k) ((uint64_t)(x))
#else
#define UNROT64(x, k) ((k) == 0 ? (uint64_t)(x) : (uint64_t)(((uint64_t)(x) << (11 * (k))) | ((uint64_t)(x) >> (64 - 11 * (k)))))
#endif
#if defined(ASCON_MASKED_WORD_BACKEND_C32)
/* 32-bit bit-sliced shares: W[2k], W[2k+1] are the even/odd halves, rotated by 5k */
#define UNROT32(x, k) ((k) == 0 ? (uint32_t)(x) : (uint32_t)(((uint32_t)(x) << (5 * (k))) | ((uint32_t)(x) >> (32 - 5 * (k)))))
#define SHARE(w, k) VINTERLEAVE(UNROT32((w)->W[2 * (k)], k), UNROT32((w)->W[2 * (k) + 1], k))
#else
#define SHARE(w, k) UNROT64((w)->S[k], k)
#endif
#define UNMASK2(w) (SHARE(w, 0) ^ SHARE(w, 1))
#define UNMASK3(w) (SHARE(w, 0) ^ SHARE(w, 1) ^ SHARE(w, 2))
#define UNMASK4(w) (SHARE(w, 0) ^ SHARE(w, 1) ^ SHARE(w, 2) ^ SHARE(w, 3))
#define CAT_(a, b) a##b
#define CAT(a, b) CAT_(a, b)
#define UNMASK(n, w) CAT(UNMASK, n)(w)
#define FN(op) CAT(CAT(CAT(ascon_masked_word_x, NS), _), op)
#if defined(ASCON_MASKED_WORD_BACKEND_C32)
#define RAWSHARE_EQ(a, b, k) ((a)->W[2 * (k)] == (b)->W[2 * (k)] && (a)->W[2 * (k) + 1] == (b)->W[2 * (k) + 1])
#define RAWSHARE_ZERO(a, k) ((a)->W[2 * (k)] == 0 && (a)->W[2 * (k) + 1] == 0)
#else
#define RAWSHARE_EQ(a, b, k) ((a)->S[k] == (b)->S[k])
#define RAWSHARE_ZERO(a, k) ((a)->S[k] == 0)
#endif
/* shares above the active count are zero where the code promises it */
#define UPPER_ZERO(w) do { unsigned k_; for (k_ = NS; k_ < ASCON_MASKED_MAX_SHARES; ++k_) \
    __CPROVER_assert(RAWSHARE_ZERO(w, k_), "shares above the active count are zero"); } while (0)

static void any_word(ascon_masked_word_t *w) { unsigned k; for (k = 0; k < ASCON_MASKED_MAX_SHARES; ++k) w->S[k] = nondet_u64(); }

void h_masked_word(void)
{
    ascon_masked_word_t a, b, a0;
    ascon_trng_state_t trng;
    uint8_t data[8], data2[8];
    unsigned i, size = nondet_unsigned();
    uint64_t v = 0;
    any_word(&a); any_word(&b);
    for (i = 0; i < 8; ++i) { data[i] = nondet_u8(); data2[i] = nondet_u8(); }
    a0 = a;
#if defined(OP_zero)
    FN(zero)(&a, &trng);
    __CPROVER_assert(UNMASK(NS, &a) == 0, "zero: unmasks to 0 for every random value"); UPPER_ZERO(&a);
#elif defined(OP_load)
    FN(load)(&a, data, &trng);
    __CPROVER_assert(UNMASK(NS, &a) == VBE64(data), "load: unmasks to the big-endian value of the 8 bytes"); UPPER_ZERO(&a);
#elif defined(OP_load_partial)
    __CPROVER_assume(size >= 1 && size <= 7);
    { uint8_t *d = malloc(size); __CPROVER_assume(d != 0);     /* exactly size bytes */
      for (i = 0; i < 7; ++i) if (i < size) v |= ((uint64_t)d[i]) << (56 - 8 * i);
      FN(load_partial)(&a, d, size, &trng); }
    __CPROVER_assert(UNMASK(NS, &a) == v, "load_partial: the size bytes become the top bytes, the rest is zero"); UPPER_ZERO(&a);
#elif defined(OP_load_32)
    FN(load_32)(&a, data, data2, &trng);
    __CPROVER_assert(UNMASK(NS, &a) == ((((uint64_t)VBE32(data)) << 32) | VBE32(data2)), "load_32: two big-endian 32-bit halves"); UPPER_ZERO(&a);
#elif defined(OP_store)
    FN(store)(data, &a);
    __CPROVER_assert(VBE64(data) == UNMASK(NS, &a), "store: the 8 bytes are the unmasked value, big-endian");
#elif defined(OP_store_partial)
    __CPROVER_assume(size <= 7);
    { uint8_t *d = malloc(size); __CPROVER_assume(d != 0);
      FN(store_partial)(d, size, &a);
      for (i = 0; i < 7; ++i) if (i < size) __CPROVER_assert(d[i] == (uint8_t)(UNMASK(NS, &a) >> (56 - 8 * i)), "store_partial: byte i is byte i of the unmasked value"); }
#elif defined(OP_randomize)
#if defined(VERIF_ALIAS)
    FN(randomize)(&a, &a, &trng);
    __CPROVER_assert(UNMASK(NS, &a) == UNMASK(NS, &a0), "randomize (in place): the value is preserved for every random value");
#define STALE(K, X, Y) __CPROVER_assert(RAWSHARE_EQ(X, Y, K), "MUSTFAIL share " #K " receives fresh randomness (unchanged for all random values would be a defect)");
    STALE(0, &a, &a0) STALE(1, &a, &a0)
#if NS > 2
    STALE(2, &a, &a0)
#endif
#if NS > 3
    STALE(3, &a, &a0)
#endif
#else
    FN(randomize)(&a, &b, &trng);
    __CPROVER_assert(UNMASK(NS, &a) == UNMASK(NS, &b), "randomize: the value is preserved for every random value");
#define STALE2(K, X, Y) __CPROVER_assert(RAWSHARE_EQ(X, Y, K), "MUSTFAIL share " #K " receives fresh randomness (unchanged for all random values would be a defect)");
    STALE2(0, &a, &b) STALE2(1, &a, &b)
#if NS > 2
    STALE2(2, &a, &b)
#endif
#if NS > 3
    STALE2(3, &a, &b)
#endif
#endif
#elif defined(OP_xor)
    FN(xor)(&a, &b);
    __CPROVER_assert(UNMASK(NS, &a) == (UNMASK(NS, &a0) ^ UNMASK(NS, &b)), "xor: unmask(dest') == unmask(dest) ^ unmask(src)");
#elif defined(OP_replace)
    __CPROVER_assume(size <= 7);
    FN(replace)(&a, &b, size);
    { uint64_t keep = (~(uint64_t)0) >> (size * 8);
      __CPROVER_assert(UNMASK(NS, &a) == ((UNMASK(NS, &a0) & keep) | (UNMASK(NS, &b) & ~keep)), "replace: the top size bytes come from src, the rest stays"); }
#elif defined(OP_from)
#if defined(VERIF_ALIAS)
    CAT(CAT(CAT(CAT(ascon_masked_word_x, NS), _from_x), MS), )(&a, &a, &trng);
    __CPROVER_assert(UNMASK(NS, &a) == UNMASK(MS, &a0), "from_xM (in place): the unmasked value is preserved");
#else
    CAT(CAT(CAT(CAT(ascon_masked_word_x, NS), _from_x), MS), )(&a, &b, &trng);
    __CPROVER_assert(UNMASK(NS, &a) == UNMASK(MS, &b), "from_xM: the unmasked value is preserved");
#endif
    UPPER_ZERO(&a);
#elif defined(OP_pad)
    __CPROVER_assume(size <= 7);
    ascon_masked_word_pad(&a, size);
    __CPROVER_assert(UNMASK(NS, &a) == (UNMASK(NS, &a0) ^ (0x8000000000000000ULL >> (size * 8))), "pad: flips the 0x80 bit of byte offset");
#elif defined(OP_separator)
    ascon_masked_word_separator(&a);
    __CPROVER_assert(UNMASK(NS, &a) == (UNMASK(NS, &a0) ^ 1), "separator: flips the last bit");
#else
#error "no OP"
#endif
    VERIF_REACH_POINT("h_masked_word end");
}
