/* C19 (in-process part): encrypt_file / decrypt_file / generate_password of
 * apps/asconcrypt/asconcrypt.c, the real file included verbatim (main renamed),
 * with every external effect stubbed nondeterministically:
 *   safe_file_open_*   may fail;  safe_file_read  returns -1 or any count 0..len (contract of fileops, C19 fileops groups)
 *   safe_file_write    returns -1 or any count 0..len;  ascon_random may report an unhealthy source
 *   SIV / AEAD verification may reject;  the crypto transforms are frame-only stubs
 * Ghost flags record what went wrong; the chunk loops carry loop contracts (any number of chunks).
 * Asserted: the function reports success (1) only if nothing failed, and whenever it
 * reports failure (0) after the output was opened, the output has been deleted. */
#include <stdio.h>
#include <stddef.h>
size_t nondet_size_stub(void);
/* the tool's I/O buffer constant BUFSIZ (8192) is 48 here: the chunk structure (buffer - 16 byte tag window) is kept,
 * the stubs below then havoc at most 64 bytes with a plain loop */
#undef BUFSIZ
#define BUFSIZ 48
#define main asconcrypt_main
/* the password length is irrelevant to the I/O plumbing: any value below the password buffer size */
#include <string.h>
static size_t verif_strlen(const char *s_) { size_t n_ = nondet_size_stub(); (void)s_; __CPROVER_assume(n_ < 1024); return n_; }
#define strlen(x) verif_strlen(x)
#include "../../repo/apps/asconcrypt/asconcrypt.c"
#undef strlen
#undef main
#include "verif_harness.h"

static void havoc_bytes(void *p, size_t n)
{ size_t i; unsigned char *q = (unsigned char *)p; __CPROVER_assert(n <= 96, "stub: at most 96 bytes"); for (i = 0; i < 96; ++i) if (i < n) q[i] = nondet_u8(); }
unsigned verif_io_calls;
int verif_read_failed, verif_write_failed, verif_errno, verif_hard_fail;
int verif_random_failed, verif_auth_failed, verif_in_opened, verif_out_opened, verif_deleted, verif_short_read;

int safe_file_open_read(SAFEFILE *file, const char *filename) { int ok = nondet_bool(); file->fd = 3; file->filename = filename; verif_in_opened = ok; return ok; }
int safe_file_open_write(SAFEFILE *file, const char *filename) { int ok = nondet_bool(); file->fd = 4; file->filename = filename; verif_out_opened = ok; return ok; }
void safe_file_close(SAFEFILE *file) { file->fd = -1; }
void safe_file_delete(SAFEFILE *file) { file->fd = -1; verif_deleted = 1; }
int safe_file_read(SAFEFILE *file, void *data, size_t len)
{
    int r = nondet_int(); (void)file;
    __CPROVER_assert(__CPROVER_w_ok(data, len), "safe_file_read: the destination holds len bytes");
    __CPROVER_assume(r >= -1 && (r < 0 || (size_t)r <= len));
    if (r > 0) havoc_bytes(data, (size_t)r);
    if (r < 0) verif_read_failed = 1;
    verif_io_calls++;
    return r;
}
int safe_file_write(SAFEFILE *file, const void *data, size_t len)
{
    int r = nondet_int(); (void)file;
    __CPROVER_assert(__CPROVER_r_ok(data, len), "safe_file_write: the source holds len bytes");
    __CPROVER_assume(r >= -1 && (r < 0 || (size_t)r <= len));
    if (r < 0 || (size_t)r != len) verif_write_failed = 1;      /* an error, or fewer bytes than asked for */
    verif_io_calls++;
    return r;
}
int ascon_random(unsigned char *out, size_t outlen) { int ok = nondet_bool(); havoc_bytes(out, outlen); if (!ok) verif_random_failed = 1; return ok; }
void ascon_pbkdf2(unsigned char *out, size_t outlen, const unsigned char *p, size_t pl, const unsigned char *s, size_t sl, unsigned long c)
{ (void)p; (void)pl; (void)s; (void)sl; (void)c; havoc_bytes(out, outlen); }
void ascon80pq_siv_encrypt(unsigned char *c, size_t *clen, const unsigned char *m, size_t mlen, const unsigned char *ad, size_t adlen,
                           const unsigned char *npub, const unsigned char *k)
{ (void)m; (void)ad; (void)adlen; (void)npub; (void)k; *clen = mlen + 16; havoc_bytes(c, mlen + 16); }
int ascon80pq_siv_decrypt(unsigned char *m, size_t *mlen, const unsigned char *c, size_t clen, const unsigned char *ad, size_t adlen,
                          const unsigned char *npub, const unsigned char *k)
{ int r = nondet_bool() ? 0 : -1; (void)c; (void)ad; (void)adlen; (void)npub; (void)k; if (clen < 16) r = -1; else { *mlen = clen - 16; havoc_bytes(m, clen - 16); }
  if (r != 0) verif_auth_failed = 1; return r; }
void ascon80pq_aead_init(ascon80pq_state_t *st, const unsigned char *n, const unsigned char *k) { (void)n; (void)k; havoc_bytes(st, sizeof(*st)); }
void ascon80pq_aead_start(ascon80pq_state_t *st, const unsigned char *ad, size_t adlen) { (void)ad; (void)adlen; havoc_bytes(st, sizeof(*st)); }
void ascon80pq_aead_encrypt_block(ascon80pq_state_t *st, const unsigned char *in, unsigned char *out, size_t len)
{ (void)in; __CPROVER_assert(__CPROVER_w_ok(out, len), "encrypt_block: len bytes fit"); havoc_bytes(st, sizeof(*st)); if (len) havoc_bytes(out, len); }
void ascon80pq_aead_decrypt_block(ascon80pq_state_t *st, const unsigned char *in, unsigned char *out, size_t len)
{ (void)in; __CPROVER_assert(__CPROVER_w_ok(out, len), "decrypt_block: len bytes fit"); havoc_bytes(st, sizeof(*st)); if (len) havoc_bytes(out, len); }
void ascon80pq_aead_encrypt_finalize(ascon80pq_state_t *st, unsigned char *tag) { (void)st; havoc_bytes(tag, 16); }
int ascon80pq_aead_decrypt_finalize(ascon80pq_state_t *st, const unsigned char *tag) { int r = nondet_bool() ? 0 : -1; (void)st; (void)tag; if (r != 0) verif_auth_failed = 1; return r; }
void ascon80pq_aead_free(ascon80pq_state_t *st) { (void)st; }
void ascon_clean(void *buf, unsigned size) { (void)buf; (void)size; }
void perror(const char *s) { (void)s; }

void h_asconcrypt(void)
{
    int r;
    /* ghost flags start cleared (statics are not zero-initialised under the contract instrumentation) */
    verif_read_failed = 0; verif_write_failed = 0; verif_random_failed = 0; verif_auth_failed = 0;
    verif_in_opened = 0; verif_out_opened = 0; verif_deleted = 0; verif_io_calls = 0;
#if defined(OP_encrypt)
    r = encrypt_file("in", "out");
    __CPROVER_assert(r == 0 || r == 1, "encrypt_file reports 0 or 1");
    __CPROVER_assert(r == 0 || (verif_in_opened && verif_out_opened && !verif_random_failed && !verif_read_failed && !verif_write_failed),
                     "encrypt_file reports success only if the random source and every read and write succeeded");
    __CPROVER_assert(r == 1 || !verif_out_opened || !verif_in_opened || verif_deleted, "encrypt_file: on failure no (partial) output file is left behind");
    __CPROVER_assert(r == 0 || !verif_deleted, "encrypt_file: a successful output is not deleted");
#elif defined(OP_decrypt)
    r = decrypt_file("in", "out");
    __CPROVER_assert(r == 0 || r == 1, "decrypt_file reports 0 or 1");
    __CPROVER_assert(r == 0 || (verif_in_opened && verif_out_opened && !verif_auth_failed && !verif_read_failed && !verif_write_failed),
                     "decrypt_file reports success only if the password/SIV block and the final tag verified and every read and write succeeded");
    __CPROVER_assert(r == 1 || !verif_out_opened || !verif_in_opened || verif_deleted, "decrypt_file: on failure no (partial) output file is left behind");
    __CPROVER_assert(r == 0 || !verif_deleted, "decrypt_file: a successful output is not deleted");
#elif defined(OP_genpw)
    r = generate_password("key");
    __CPROVER_assert(r == 0 || (verif_out_opened && !verif_random_failed && !verif_write_failed),
                     "generate_password reports success only if the random source and every write succeeded");
    __CPROVER_assert(r == 1 || !verif_out_opened || verif_deleted, "generate_password: on failure no key file is left behind");
#endif
    VERIF_REACH_POINT("h_asconcrypt end");
}
