/* C15: the SpongePRNG (src/random/ascon-prng.c, ascon-random.c) with a stubbed
 * system source (arbitrary bytes, arbitrary health status, call counter), stubbed
 * storage callbacks (arbitrary result) and the XOF functions / permutation as
 * specification stubs.  Plain-assertion groups (see stub_sponge_spec.h).
 *   - structure: after init / fetch / feed / reseed the last operations on the
 *     sponge are exactly FOUR times (zero the 8-byte rate; permute 12 rounds) -
 *     ghost run counter maintained by the permutation stub;
 *   - reseed: fetch calls the system source before squeezing iff the counter has
 *     reached 16384; counter arithmetic;
 *   - status results as documented in ascon/random.h;
 *   - init equals the documented composition (cXOF "SpongePRNG", absorb the
 *     system seed, re-key), so the output is a deterministic function of the
 *     system bytes and every seed byte is an argument of it. */
#include <ascon/random.h>
#include <ascon/xof.h>
#include <ascon/storage.h>
#include "random/ascon-trng.h"
#include "verif_harness.h"
#include "stub_sponge_spec.h"

stub_log_t stub_absorb_log, stub_squeeze_log;
const void *stub_long_buf;
unsigned verif_trng_calls, verif_trng_calls_at_squeeze, verif_squeeze_calls;
int verif_trng_status;
unsigned char verif_seed[64];
unsigned verif_zp_run;      /* length of the current run of (rate all-zero on entry -> permute 12 rounds) */
int verif_store_result;

/* --- stubs --- */
int ascon_trng_generate(unsigned char *out, size_t outlen)
{
    unsigned i;
    __CPROVER_assert(outlen == 32, "the system source is asked for a 32-byte seed");
    for (i = 0; i < 32; ++i) { verif_seed[i] = nondet_u8(); out[i] = verif_seed[i]; }
    verif_trng_calls++;
    return verif_trng_status;
}
void ascon_permute(ascon_state_t *state, uint8_t first_round)
{
    spec_state s = verif_canon(state);
    __CPROVER_assert(first_round <= 12, "ascon_permute precondition");
    if (first_round == 0 && s.x[0] == 0) verif_zp_run++; else verif_zp_run = 0;
    verif_set_canon(state, spec_P(s, first_round));
}
static void note_other(void) { verif_zp_run = 0; }
#define STUB_NOTE note_other();
void ascon_xof_absorb(ascon_xof_state_t *state, const unsigned char *in, size_t inlen);
void ascon_xof_squeeze(ascon_xof_state_t *state, unsigned char *out, size_t outlen);
STUB_ABSORB(stub_xof_absorb_impl, ascon_xof_state_t, SPEC_XOF, 11u, 8, 8)
STUB_SQUEEZE(stub_xof_squeeze_impl, ascon_xof_state_t, SPEC_XOF, 12u, 8, 8)
void ascon_xof_absorb(ascon_xof_state_t *state, const unsigned char *in, size_t inlen)
{ if (inlen > 0 || state->mode) note_other(); stub_xof_absorb_impl(state, in, inlen); }
void ascon_xof_squeeze(ascon_xof_state_t *state, unsigned char *out, size_t outlen)
{ note_other(); verif_squeeze_calls++; verif_trng_calls_at_squeeze = verif_trng_calls; stub_xof_squeeze_impl(state, out, outlen); }

static int st_read(const ascon_storage_t *s, size_t o, unsigned char *d, size_t n)
{ unsigned i; (void)s; (void)o; for (i = 0; i < 32; ++i) if (i < n) d[i] = nondet_u8(); return verif_store_result; }
static int st_write(const ascon_storage_t *s, size_t o, const unsigned char *d, size_t n, int e)
{ (void)s; (void)o; (void)d; (void)n; (void)e; return verif_store_result; }

static void any_generator(ascon_random_state_t *g)
{
    unsigned k;
    for (k = 0; k < 40; ++k) g->xof.state.B[k] = nondet_u8();
    g->xof.count = VERIF_COUNT; g->xof.mode = VERIF_MODE;       /* constant block position of the entry state */
    g->counter = nondet_u32(); g->reserved = 0;
    __CPROVER_assume(g->counter < 2 * 16384);
}
#define REKEYED() __CPROVER_assert(verif_zp_run >= 4, "the last operations on the generator state are (at least) four (zero the rate; permute 12 rounds) steps")

void h_prng(void)
{
    ascon_random_state_t g;
    size_t len = nondet_size();
    int r;
    uint32_t c0;
    verif_trng_status = nondet_int();
    verif_store_result = nondet_int();
    verif_trng_calls = 0; verif_squeeze_calls = 0; verif_zp_run = 0; stub_long_buf = 0;
    __CPROVER_assume(len <= ((size_t)1 << 40));
#if defined(OP_init)
    r = ascon_random_init(&g);
    __CPROVER_assert((r != 0) == (verif_trng_status != 0), "init: non-zero iff the system source reported healthy");
    __CPROVER_assert(verif_trng_calls == 1 && g.counter == 0, "init: one system seed, counter 0");
    REKEYED();
    {   /* the documented composition */
        spec_sponge sp; unsigned i, k; spec_state z; uint8_t name[32] = {'S','p','o','n','g','e','P','R','N','G'};
        sp.s.x[0] = 0x00400c0000000000ULL;
        for (i = 0; i < 4; ++i) { sp.s.x[1 + i] = 0; for (k = 0; k < 8; ++k) sp.s.x[1 + i] = (sp.s.x[1 + i] << 8) | name[8 * i + k]; }
        sp.s = spec_P(sp.s, 0); sp.count = 0; sp.mode = 0;
        sp = spec_sponge_absorb_v(&SPEC_XOF, sp, verif_seed, 32);
        if (sp.count != 0) { sp.s = spec_P(sp.s, 0); sp.count = 0; }      /* align */
        for (i = 0; i < 4; ++i) { sp.s.x[0] = 0; sp.s = spec_P(sp.s, 0); }
        __CPROVER_assert(spec_eq(verif_canon(&g.xof.state), sp.s) && g.xof.count == 0 && g.xof.mode == 0,
                         "init: state == rekey(absorb(cXOF 'SpongePRNG' initial state, system seed)): deterministic in the seed bytes");
    }
#elif defined(OP_fetch)
    { unsigned char *out = malloc(len); __CPROVER_assume(out != 0);
      any_generator(&g); c0 = g.counter; stub_long_buf = out;
      ascon_random_fetch(&g, out, len);
      __CPROVER_assert((verif_trng_calls == 1) == (c0 >= 16384), "fetch: fresh system entropy is drawn iff 16384 bytes were produced since the last reseed");
      __CPROVER_assert(verif_squeeze_calls == 1 && verif_trng_calls_at_squeeze == verif_trng_calls, "fetch: the reseed happens BEFORE the output is squeezed");
      __CPROVER_assert((g.counter >= 16384) == (((c0 >= 16384 ? 0 : (size_t)c0) + len) >= 16384), "fetch: the counter reaches the limit exactly when 16384 bytes have been produced since the last reseed");
      REKEYED(); }
#elif defined(OP_feed)
    { unsigned char *in = malloc(len); __CPROVER_assume(in != 0);
      any_generator(&g); stub_long_buf = in;
      ascon_random_feed(&g, in, len);
      __CPROVER_assert(len <= 64 || (stub_absorb_log.count == 1 && stub_absorb_log.buf == in && stub_absorb_log.len == len), "feed: the caller's data is absorbed");
      REKEYED(); }
#elif defined(OP_feed_short)
    {   /* every fed byte influences the state: short feeds are absorbed by content and the block is permuted before the rate is zeroed */
        unsigned char in[VERIF_N]; unsigned i; spec_sponge sp;
        for (i = 0; i < VERIF_N; ++i) in[i] = nondet_u8();
        any_generator(&g); STUB_LOAD(sp, &g.xof);
        sp = spec_sponge_absorb_v(&SPEC_XOF, sp, in, VERIF_N);
        if (sp.count != 0) { sp.s = spec_P(sp.s, 0); sp.count = 0; }
        for (i = 0; i < 4; ++i) { sp.s.x[0] = 0; sp.s = spec_P(sp.s, 0); }
        ascon_random_feed(&g, in, VERIF_N);
        __CPROVER_assert(spec_eq(verif_canon(&g.xof.state), sp.s), "feed: state == rekey(align(absorb(state, data))): every fed byte is an argument of the new state");
        REKEYED(); }
#elif defined(OP_reseed)
    any_generator(&g);
    r = ascon_random_reseed(&g);
    __CPROVER_assert((r != 0) == (verif_trng_status != 0), "reseed: non-zero iff the system source reported healthy");
    __CPROVER_assert(verif_trng_calls == 1 && g.counter == 0, "reseed: one system seed, counter reset");
    REKEYED();
#elif defined(OP_random)
    { unsigned char *out = malloc(len); __CPROVER_assume(out != 0); stub_long_buf = out;
      r = ascon_random(out, len);
      __CPROVER_assert(r == (verif_trng_status != 0 ? 1 : 0), "ascon_random: 1 iff the system source reported healthy, else 0"); }
#elif defined(OP_save)
    { ascon_storage_t st; st.read = st_read; st.write = st_write; st.size = nondet_size(); st.erase_size = nondet_size();
      any_generator(&g);
      r = ascon_random_save_seed(nondet_bool() ? &g : 0, nondet_bool() ? &st : 0);
      /* documented: zero if the seed was saved, -1 if non-volatile storage failed */
      __CPROVER_assert(r == 0 || r == -1, "save_seed: the result is 0 or -1 as documented");
      __CPROVER_assert(r != 0 || verif_store_result == 32, "save_seed: 0 only if the storage callback wrote the 32 bytes"); }
#elif defined(OP_save_ok)
    { ascon_storage_t st; st.read = st_read; st.write = st_write; st.size = 32 + (nondet_size() & 0xffff); st.erase_size = nondet_size();
      any_generator(&g);
      r = ascon_random_save_seed(&g, &st);
      __CPROVER_assert(r == (verif_store_result == 32 ? 0 : -1), "save_seed: zero if the seed was saved, -1 if storage failed"); }
#elif defined(OP_load_ok)
    { ascon_storage_t st; st.read = st_read; st.write = st_write; st.size = 32 + (nondet_size() & 0xffff); st.erase_size = nondet_size();
      any_generator(&g);
      r = ascon_random_load_seed(&g, &st);
      __CPROVER_assert(r == (verif_store_result == 32 ? 0 : -1), "load_seed: zero if the seed was loaded, -1 if storage failed");
      REKEYED(); }
#endif
    VERIF_REACH_POINT("h_prng end");
}
