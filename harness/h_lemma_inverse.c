/* C02 inverse-step lemma (pure specification, loop-free): for every state,
 * position, rate, round and byte, decrypting the byte produced by encrypting m
 * returns m and reaches the same successor state. */
#include "verif_harness.h"
#include "spec_sponge.h"
void h_lemma_inverse(void)
{
    spec_state s, e, d;
    unsigned pos = nondet_unsigned(), rate = nondet_unsigned(), r = nondet_unsigned();
    uint8_t m = nondet_u8(), c, m2;
    s.x[0] = nondet_u64(); s.x[1] = nondet_u64(); s.x[2] = nondet_u64(); s.x[3] = nondet_u64(); s.x[4] = nondet_u64();
    __CPROVER_assume((rate == 8 || rate == 16) && pos < rate && r <= 12);
    e = spec_encrypt_byte(s, pos, m, &c, rate, r);
    d = spec_decrypt_byte(s, pos, c, &m2, rate, r);
    __CPROVER_assert(m2 == m, "decrypt_byte(encrypt_byte(m)) returns m");
    __CPROVER_assert(spec_eq(e, d), "encrypt and decrypt of the same ciphertext byte reach the same state");
    VERIF_REACH_POINT("lemma end");
}
