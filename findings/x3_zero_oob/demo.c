#include <stdio.h>
#include <ascon/masking.h>
#include "masking/ascon-masked-word.h"
#include "random/ascon-trng.h"
uint64_t ascon_trng_generate_64(ascon_trng_state_t *s){(void)s;return 0x0123456789abcdefULL;}
uint32_t ascon_trng_generate_32(ascon_trng_state_t *s){(void)s;return 0x01234567;}
int main(){ ascon_masked_word_t w; ascon_trng_state_t t; ascon_masked_word_x3_zero(&w,&t); printf("sizeof word = %zu\n", sizeof(w)); return 0; }
