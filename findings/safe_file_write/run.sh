#!/bin/bash
# D4: asconcrypt must exit non-zero when a write fails.  Builds the tool from the source root $1 and encrypts a
# small file to /dev/full (every write fails with ENOSPC).  exit 1 = defect present (tool reported success).
R=${1:-/repo}
gcc -w -O1 -DASCON_FORCE_C64 -DHAVE_GETOPT -DHAVE_GETOPT_H -DHAVE_UNISTD_H -DHAVE_ISATTY -DHAVE_GETRANDOM -DHAVE_SYS_RANDOM_H -DHAVE_OPEN -DHAVE_FCNTL_H \
  -I$R/src -I$R/apps/asconcrypt $R/apps/asconcrypt/*.c $(ls $R/src/aead/*.c $R/src/core/ascon-c64.c $R/src/core/ascon-sliced64.c $R/src/core/ascon-clean.c \
  $R/src/core/ascon-hex.c $R/src/hash/*.c $R/src/siv/*.c $R/src/password/*.c $R/src/mac/*.c $R/src/kdf/*.c $R/src/random/ascon-prng.c $R/src/random/ascon-random.c \
  $R/src/random/ascon-trng-dev-random.c $R/src/random/ascon-trng-mixer.c $R/src/masking/*.c) -o /tmp/asconcrypt_d4 || exit 2
echo "hello world" > /tmp/d4_in.txt
/tmp/asconcrypt_d4 -e -p pw -o /dev/full /tmp/d4_in.txt 2>/dev/null
rc=$?
echo "asconcrypt -e to /dev/full exited with status $rc"
[ $rc -eq 0 ] && exit 1
exit 0
