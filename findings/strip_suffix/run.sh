#!/bin/bash
# builds asconcrypt with AddressSanitizer from the source root $1 and runs "asconcrypt -d -p pw ab" (a 2-character file name)
R=${1:-/repo}
gcc -w -g -fsanitize=address -DASCON_FORCE_C64 -DHAVE_GETOPT -DHAVE_GETOPT_H -DHAVE_UNISTD_H -DHAVE_ISATTY -DHAVE_GETRANDOM -DHAVE_SYS_RANDOM_H -DHAVE_OPEN -DHAVE_FCNTL_H -I$R/src -I$R/apps/asconcrypt $R/apps/asconcrypt/*.c $(ls $R/src/aead/*.c $R/src/core/ascon-c64.c $R/src/core/ascon-sliced64.c $R/src/core/ascon-clean.c $R/src/core/ascon-hex.c $R/src/hash/*.c $R/src/siv/*.c $R/src/password/*.c $R/src/mac/*.c $R/src/kdf/*.c $R/src/random/ascon-prng.c $R/src/random/ascon-random.c $R/src/random/ascon-trng-dev-random.c $R/src/random/ascon-trng-mixer.c $R/src/masking/*.c) -o /tmp/asconcrypt_asan || exit 2
cd /tmp && /tmp/asconcrypt_asan -d -p pw ab 2>&1 | grep -m1 "AddressSanitizer" && exit 1
exit 0
