/* D1: ascon_masked_key_160_randomize_with_trng re-randomised only shares 0 and 1
 * when the key is masked with 3 or 4 shares (default: 4). */
#include <stdio.h>
#include <string.h>
#include <ascon/masking.h>
int main(void)
{
    unsigned char key[20] = {1,2,3,4,5,6,7,8,9,10,11,12,13,14,15,16,17,18,19,20};
    ascon_masked_key_160_t mk, before; int w, k, stale = 0;
    ascon_masked_key_160_init(&mk, key); before = mk;
    ascon_masked_key_160_randomize(&mk);
    for (w = 0; w < 6; ++w) for (k = 0; k < 4; ++k)
        if (mk.k[w].S[k] == before.k[w].S[k] && before.k[w].S[k] != 0) { printf("word %d share %d unchanged by randomize\n", w, k); ++stale; }
    printf("%d stale share(s)\n", stale);
    return stale != 0;
}
