#!/bin/bash
# Demonstration for C18 / executable stack: builds libascon from a source tree (default /repo) in a scratch directory
# and reports the GNU_STACK program header of the shared library.  exit 1 if the stack is marked executable.
SRC=${1:-/repo}
B=$(mktemp -d /tmp/execstack_XXXX)
trap 'rm -rf "$B"' EXIT
cmake -S "$SRC" -B "$B" >/dev/null 2>&1 || { echo "cmake failed"; exit 2; }
cmake --build "$B" --target ascon -j16 >/dev/null 2>&1 || { echo "build failed"; exit 2; }
L=$(find "$B/src" -name 'libascon.so.*.*' -type f | head -1)
H=$(readelf -lW "$L" | grep GNU_STACK)
echo "$H"
case "$H" in *RWE*) echo "libascon.so: EXECUTABLE stack"; exit 1;; *RW*) echo "libascon.so: non-executable stack"; exit 0;; *) echo "no GNU_STACK header"; exit 1;; esac
