/* D2: ascon_random_save_seed / ascon_random_load_seed return 1 (saved/loaded) or 0 (storage failed),
 * while ascon/random.h documents "Zero if the seed was saved/loaded, or -1 if non-volatile storage failed". */
#include <stdio.h>
#include <string.h>
#include <ascon/random.h>
#include <ascon/storage.h>
static int fail_mode;
static int rd(const ascon_storage_t *s, size_t o, unsigned char *d, size_t n) { (void)s; (void)o; memset(d, 7, n); return fail_mode ? -1 : (int)n; }
static int wr(const ascon_storage_t *s, size_t o, const unsigned char *d, size_t n, int e) { (void)s; (void)o; (void)d; (void)e; return fail_mode ? -1 : (int)n; }
int main(void)
{
    ascon_random_state_t g; ascon_storage_t st; int bad = 0, r;
    memset(&st, 0, sizeof(st)); st.read = rd; st.write = wr; st.size = 64;
    ascon_random_init(&g);
    fail_mode = 0; r = ascon_random_save_seed(&g, &st); printf("save ok   -> %d (documented 0)\n", r); bad += (r != 0);
    fail_mode = 1; r = ascon_random_save_seed(&g, &st); printf("save fail -> %d (documented -1)\n", r); bad += (r != -1);
    fail_mode = 0; r = ascon_random_load_seed(&g, &st); printf("load ok   -> %d (documented 0)\n", r); bad += (r != 0);
    fail_mode = 1; r = ascon_random_load_seed(&g, &st); printf("load fail -> %d (documented -1)\n", r); bad += (r != -1);
    return bad != 0;
}
