/* Reference ASCON permutation, written from ASCON v1.2 (section 2.6):
 * constant addition p_C, substitution layer p_S (the specification's
 * bit-sliced instruction sequence, figure 5), linear layer p_L.
 * Plain C, loop-free per round; usable natively and under CBMC. */
#ifndef VERIF_SPEC_PERM_H
#define VERIF_SPEC_PERM_H

#include <stdint.h>
#include <stddef.h>

typedef struct { uint64_t x[5]; } spec_state;

#define SPEC_ROR64(v, n) ((uint64_t)(((uint64_t)(v) >> (n)) | ((uint64_t)(v) << (64 - (n)))))

/* round constant of round i (0..11) of the 12-round permutation p^12;
 * p^b uses rounds 12-b .. 11 */
#define SPEC_RC(i) ((uint64_t)((((uint64_t)0xf - (uint64_t)(i)) << 4) | (uint64_t)(i)))

static inline spec_state ref_round(spec_state s, unsigned i)
{
    uint64_t x0 = s.x[0], x1 = s.x[1], x2 = s.x[2], x3 = s.x[3], x4 = s.x[4];
    uint64_t t0, t1, t2, t3, t4;
    spec_state r;
    /* p_C */
    x2 ^= SPEC_RC(i);
    /* p_S */
    x0 ^= x4; x4 ^= x3; x2 ^= x1;
    t0 = x0; t1 = x1; t2 = x2; t3 = x3; t4 = x4;
    t0 = ~t0; t1 = ~t1; t2 = ~t2; t3 = ~t3; t4 = ~t4;
    t0 &= x1; t1 &= x2; t2 &= x3; t3 &= x4; t4 &= x0;
    x0 ^= t1; x1 ^= t2; x2 ^= t3; x3 ^= t4; x4 ^= t0;
    x1 ^= x0; x0 ^= x4; x3 ^= x2; x2 = ~x2;
    /* p_L */
    r.x[0] = x0 ^ SPEC_ROR64(x0, 19) ^ SPEC_ROR64(x0, 28);
    r.x[1] = x1 ^ SPEC_ROR64(x1, 61) ^ SPEC_ROR64(x1, 39);
    r.x[2] = x2 ^ SPEC_ROR64(x2, 1)  ^ SPEC_ROR64(x2, 6);
    r.x[3] = x3 ^ SPEC_ROR64(x3, 10) ^ SPEC_ROR64(x3, 17);
    r.x[4] = x4 ^ SPEC_ROR64(x4, 7)  ^ SPEC_ROR64(x4, 41);
    return r;
}

/* rounds first_round .. 11; identity for first_round >= 12 */
static inline spec_state ref_permute(spec_state s, unsigned first_round)
{
    unsigned i;
    for (i = first_round; i < 12; ++i)
        s = ref_round(s, i);
    return s;
}

/* canonical byte i (0..39) of the big-endian state */
#define SPEC_BYTE(s, i) ((uint8_t)((s).x[(i) / 8] >> (56 - 8 * ((i) % 8))))

#endif
