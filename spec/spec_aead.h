/* Reference compositions of ASCON-128, ASCON-128a and ASCON-80pq (ASCON v1.2,
 * Algorithm 1), written over the L1 operations "absorb a byte string with 10*
 * padding" and "encrypt / decrypt a byte string", which are
 *   - under CBMC with -DVERIF_L1_SUMMARY: uninterpreted functions of (state,
 *     buffer identity, length, rounds, position) - the summary face of the L1
 *     contracts (DESIGN 3.2): the proof then holds for whatever those
 *     functions compute, in particular for the byte-serial specification the
 *     L1 contracts tie them to;
 *   - natively: the byte-serial specification of spec_sponge.h itself. */
#ifndef VERIF_SPEC_AEAD_H
#define VERIF_SPEC_AEAD_H
#include "spec_sponge.h"

typedef struct {
    uint8_t iv[8];
    unsigned ivlen;     /* 8 (128, 128a) or 4 (80pq): IV || K || N fills the 40 bytes */
    unsigned keylen;    /* 16 or 20 */
    unsigned rate;      /* 8 or 16 */
    unsigned round_b;   /* first round of p^b: 12 - b */
} spec_aead_params;

/* IV = k || r || a || b || 0*  (key bits, rate bits, a, b) */
static const spec_aead_params SPEC_ASCON128  = {{0x80, 0x40, 0x0c, 0x06, 0, 0, 0, 0}, 8, 16, 8, 6};
static const spec_aead_params SPEC_ASCON128A = {{0x80, 0x80, 0x0c, 0x08, 0, 0, 0, 0}, 8, 16, 16, 4};
static const spec_aead_params SPEC_ASCON80PQ = {{0xa0, 0x40, 0x0c, 0x06, 0, 0, 0, 0}, 4, 20, 8, 6};

#define SPEC_TAG_ABSORB(rate)  ((rate) == 8 ? 1u : 2u)
#define SPEC_TAG_ENCRYPT(rate) ((rate) == 8 ? 3u : 4u)
#define SPEC_TAG_DECRYPT(rate) ((rate) == 8 ? 5u : 6u)

#if defined(VERIF_L1_SUMMARY)
uint64_t __CPROVER_uninterpreted_L1_0(uint64_t, uint64_t, uint64_t, uint64_t, uint64_t, uint64_t, uint64_t, uint64_t, uint64_t);
uint64_t __CPROVER_uninterpreted_L1_1(uint64_t, uint64_t, uint64_t, uint64_t, uint64_t, uint64_t, uint64_t, uint64_t, uint64_t);
uint64_t __CPROVER_uninterpreted_L1_2(uint64_t, uint64_t, uint64_t, uint64_t, uint64_t, uint64_t, uint64_t, uint64_t, uint64_t);
uint64_t __CPROVER_uninterpreted_L1_3(uint64_t, uint64_t, uint64_t, uint64_t, uint64_t, uint64_t, uint64_t, uint64_t, uint64_t);
uint64_t __CPROVER_uninterpreted_L1_4(uint64_t, uint64_t, uint64_t, uint64_t, uint64_t, uint64_t, uint64_t, uint64_t, uint64_t);
#define SPEC_L1W(k, tag, a0, a1, a2, a3, a4, buf, len, misc) \
    __CPROVER_uninterpreted_L1_##k((uint64_t)(tag), (a0), (a1), (a2), (a3), (a4), (uint64_t)(buf), (uint64_t)(len), (uint64_t)(misc))
#define SPEC_L1_MISC(first_round, flag) ((uint64_t)(first_round) | ((uint64_t)(flag) << 8))
static inline spec_state spec_l1(unsigned tag, spec_state s, const void *buf, size_t len, unsigned first_round, unsigned flag)
{
    spec_state o;
    uint64_t misc = SPEC_L1_MISC(first_round, flag);
    o.x[0] = SPEC_L1W(0, tag, s.x[0], s.x[1], s.x[2], s.x[3], s.x[4], buf, len, misc);
    o.x[1] = SPEC_L1W(1, tag, s.x[0], s.x[1], s.x[2], s.x[3], s.x[4], buf, len, misc);
    o.x[2] = SPEC_L1W(2, tag, s.x[0], s.x[1], s.x[2], s.x[3], s.x[4], buf, len, misc);
    o.x[3] = SPEC_L1W(3, tag, s.x[0], s.x[1], s.x[2], s.x[3], s.x[4], buf, len, misc);
    o.x[4] = SPEC_L1W(4, tag, s.x[0], s.x[1], s.x[2], s.x[3], s.x[4], buf, len, misc);
    return o;
}
/* the output buffer is not modelled in summary mode: "dest[0..len) is what
 * this call produces" is recorded by the ghost call log of the contract */
#define SPEC_ABSORB(s, data, len, rate, rnd, lastp)       spec_l1(SPEC_TAG_ABSORB(rate), (s), (data), (len), (rnd), (lastp) != 0)
#define SPEC_ENCRYPT(s, src, dest, len, rate, rnd, pos)   spec_l1(SPEC_TAG_ENCRYPT(rate), (s), (src), (len), (rnd), (pos))
#define SPEC_DECRYPT(s, src, dest, len, rate, rnd, pos)   spec_l1(SPEC_TAG_DECRYPT(rate), (s), (src), (len), (rnd), (pos))
#else
static inline spec_state spec_absorb_all(spec_state s, const uint8_t *d, size_t len, unsigned rate, unsigned rnd, int lastp)
{
    size_t i;
    for (i = 0; i < len; ++i)
        s = spec_absorb_byte(s, (unsigned)(i % rate), d[i], rate, rnd);
    s = spec_pad(s, (unsigned)(len % rate));
    if (lastp)
        s = spec_P(s, rnd);
    return s;
}
static inline spec_state spec_encrypt_all(spec_state s, const uint8_t *src, uint8_t *dest, size_t len, unsigned rate, unsigned rnd, unsigned pos)
{ unsigned p = pos; return spec_encrypt_run(s, &p, src, dest, len, rate, rnd); }
static inline spec_state spec_decrypt_all(spec_state s, const uint8_t *src, uint8_t *dest, size_t len, unsigned rate, unsigned rnd, unsigned pos)
{ unsigned p = pos; return spec_decrypt_run(s, &p, src, dest, len, rate, rnd); }
#define SPEC_ABSORB(s, data, len, rate, rnd, lastp)       spec_absorb_all((s), (data), (len), (rate), (rnd), (lastp))
#define SPEC_ENCRYPT(s, src, dest, len, rate, rnd, pos)   spec_encrypt_all((s), (src), (dest), (len), (rate), (rnd), (pos))
#define SPEC_DECRYPT(s, src, dest, len, rate, rnd, pos)   spec_decrypt_all((s), (src), (dest), (len), (rate), (rnd), (pos))
#endif

static inline spec_state spec_xor_bytes(spec_state s, unsigned offset, const uint8_t *d, unsigned n)
{
    unsigned i;
    for (i = 0; i < n; ++i)
        s = spec_xor(s, offset + i, d[i]);
    return s;
}

/* Initialization + associated data + domain separation (Algorithm 1, lines 1-2) */
static inline spec_state spec_aead_start(const spec_aead_params *pa, const uint8_t *k, const uint8_t *npub,
                                         const uint8_t *ad, size_t adlen)
{
    spec_state s = {{0, 0, 0, 0, 0}};
    s = spec_xor_bytes(s, 0, pa->iv, pa->ivlen);                 /* S = IV || K || N */
    s = spec_xor_bytes(s, pa->ivlen, k, pa->keylen);
    s = spec_xor_bytes(s, pa->ivlen + pa->keylen, npub, 16);
    s = spec_P(s, 0);                                            /* p^a */
    s = spec_xor_bytes(s, 40 - pa->keylen, k, pa->keylen);       /* S ^= 0* || K */
    if (adlen > 0)                                               /* padded AD blocks, p^b after each */
        s = SPEC_ABSORB(s, ad, adlen, pa->rate, pa->round_b, 1);
    return spec_separator(s);                                    /* S ^= 0* || 1 */
}

/* Finalization (Algorithm 1, last lines): pad at pos, S ^= 0^r || K || 0*, p^a,
 * T = last 128 bits of S xor last 128 bits of K */
static inline void spec_aead_finalize(const spec_aead_params *pa, spec_state s, unsigned pos, const uint8_t *k, uint8_t tag[16])
{
    unsigned i;
    s = spec_pad(s, pos);
    s = spec_xor_bytes(s, pa->rate, k, pa->keylen);
    s = spec_P(s, 0);
    for (i = 0; i < 16; ++i)
        tag[i] = (uint8_t)(spec_get(s, 24 + i) ^ k[pa->keylen - 16 + i]);
}

#endif
