/* Byte-serial sponge/duplex specification over the canonical state, written
 * from ASCON v1.2 (Algorithm 1, section 2.4/2.5) and the ASCON-PRF / cXOF
 * documents.  Parametric in the permutation:
 *   under CBMC (VERIF_ABSTRACT_P): spec_P is five uninterpreted functions,
 *     so everything proved with it holds for ANY permutation, in particular
 *     for ref_permute, which the C08 contracts tie to ascon_permute;
 *   natively: spec_P == ref_permute. */
#ifndef VERIF_SPEC_SPONGE_H
#define VERIF_SPEC_SPONGE_H
#include "spec_perm.h"

#if defined(VERIF_ABSTRACT_P)
uint64_t __CPROVER_uninterpreted_P0(uint64_t, uint64_t, uint64_t, uint64_t, uint64_t, unsigned);
uint64_t __CPROVER_uninterpreted_P1(uint64_t, uint64_t, uint64_t, uint64_t, uint64_t, unsigned);
uint64_t __CPROVER_uninterpreted_P2(uint64_t, uint64_t, uint64_t, uint64_t, uint64_t, unsigned);
uint64_t __CPROVER_uninterpreted_P3(uint64_t, uint64_t, uint64_t, uint64_t, uint64_t, unsigned);
uint64_t __CPROVER_uninterpreted_P4(uint64_t, uint64_t, uint64_t, uint64_t, uint64_t, unsigned);
#define SPEC_PW(k, a0, a1, a2, a3, a4, r) __CPROVER_uninterpreted_P##k((a0), (a1), (a2), (a3), (a4), (unsigned)(r))
static inline spec_state spec_P(spec_state s, unsigned r)
{
    spec_state o;
    o.x[0] = SPEC_PW(0, s.x[0], s.x[1], s.x[2], s.x[3], s.x[4], r);
    o.x[1] = SPEC_PW(1, s.x[0], s.x[1], s.x[2], s.x[3], s.x[4], r);
    o.x[2] = SPEC_PW(2, s.x[0], s.x[1], s.x[2], s.x[3], s.x[4], r);
    o.x[3] = SPEC_PW(3, s.x[0], s.x[1], s.x[2], s.x[3], s.x[4], r);
    o.x[4] = SPEC_PW(4, s.x[0], s.x[1], s.x[2], s.x[3], s.x[4], r);
    return o;
}
#else
static inline spec_state spec_P(spec_state s, unsigned r) { return ref_permute(s, r); }
#endif

static inline int spec_eq(spec_state a, spec_state b)
{
    return a.x[0] == b.x[0] && a.x[1] == b.x[1] && a.x[2] == b.x[2] && a.x[3] == b.x[3] && a.x[4] == b.x[4];
}

/* byte i (0..39) of the canonical state */
static inline uint8_t spec_get(spec_state s, unsigned i)
{
    return (uint8_t)(s.x[i / 8] >> (56 - 8 * (i % 8)));
}
static inline spec_state spec_xor(spec_state s, unsigned i, uint8_t b)
{
    s.x[i / 8] ^= ((uint64_t)b) << (56 - 8 * (i % 8));
    return s;
}
static inline spec_state spec_set(spec_state s, unsigned i, uint8_t b)
{
    s.x[i / 8] &= ~(((uint64_t)0xff) << (56 - 8 * (i % 8)));
    s.x[i / 8] |= ((uint64_t)b) << (56 - 8 * (i % 8));
    return s;
}

/* ---- duplex byte steps: rate `rate` (8 or 16), position pos in 0..rate-1 ----
 * Each consumes one byte at position pos; when that fills the block the
 * permutation p^b (b = 12 - first_round rounds) is applied. */
static inline spec_state spec_absorb_byte(spec_state s, unsigned pos, uint8_t b, unsigned rate, unsigned first_round)
{
    s = spec_xor(s, pos, b);
    if (pos + 1 == rate)
        s = spec_P(s, first_round);
    return s;
}
/* encrypt: c = m ^ rate byte, rate byte := c */
static inline spec_state spec_encrypt_byte(spec_state s, unsigned pos, uint8_t m, uint8_t *c, unsigned rate, unsigned first_round)
{
    s = spec_xor(s, pos, m);
    *c = spec_get(s, pos);
    if (pos + 1 == rate)
        s = spec_P(s, first_round);
    return s;
}
/* decrypt: m = c ^ rate byte, rate byte := c */
static inline spec_state spec_decrypt_byte(spec_state s, unsigned pos, uint8_t c, uint8_t *m, unsigned rate, unsigned first_round)
{
    *m = (uint8_t)(c ^ spec_get(s, pos));
    s = spec_set(s, pos, c);
    if (pos + 1 == rate)
        s = spec_P(s, first_round);
    return s;
}

/* n <= 32 bytes absorbed starting at position pos (no wrap inside: used for
 * block-level steps; pos + n <= rate) */
static inline spec_state spec_absorb_run(spec_state s, unsigned pos, const uint8_t *d, unsigned n, unsigned rate, unsigned first_round)
{
    unsigned i;
    for (i = 0; i < n; ++i)
        s = spec_absorb_byte(s, pos + i, d[i], rate, first_round);
    return s;
}

/* n bytes encrypted / decrypted starting at position *pos (0..rate-1), the
 * position wrapping to 0 after each full block; *pos is the exit position */
static inline spec_state spec_encrypt_run(spec_state s, unsigned *pos, const uint8_t *m, uint8_t *c, size_t n, unsigned rate, unsigned first_round)
{
    size_t i;
    unsigned p0 = *pos;
    for (i = 0; i < n; ++i)   /* byte i is processed at position (p0 + i) mod rate */
        s = spec_encrypt_byte(s, (unsigned)((p0 + i) % rate), m[i], &c[i], rate, first_round);
    *pos = (unsigned)((p0 + n) % rate);
    return s;
}
static inline spec_state spec_decrypt_run(spec_state s, unsigned *pos, const uint8_t *c, uint8_t *m, size_t n, unsigned rate, unsigned first_round)
{
    size_t i;
    unsigned p0 = *pos;
    for (i = 0; i < n; ++i)   /* byte i is processed at position (p0 + i) mod rate */
        s = spec_decrypt_byte(s, (unsigned)((p0 + i) % rate), c[i], &m[i], rate, first_round);
    *pos = (unsigned)((p0 + n) % rate);
    return s;
}

/* 10* padding at position pos (0x80 then zeros: only the 1 bit changes the state) */
static inline spec_state spec_pad(spec_state s, unsigned pos) { return spec_xor(s, pos, 0x80); }
/* domain separation: flip the last bit of the state */
static inline spec_state spec_separator(spec_state s) { return spec_xor(s, 39, 0x01); }

#endif
