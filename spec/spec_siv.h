/* Reference for ASCON-128-SIV, ASCON-128a-SIV and ASCON-80pq-SIV, written from doc/siv.dox (text and the
 * diagram doc/images/ascon-siv.png) of the repository:
 *   authentication pass: the regular AEAD of the same parameters with IV byte 0 changed to 0x81 / 0xa1, the
 *     padded plaintext absorbed like associated data (after the domain-separation bit), no ciphertext, then
 *     the regular finalisation: S ^= 0^r || K || 0*, p^a, T = last 128 bits of S xor last 128 bits of K;
 *   keystream pass: S = p^a(IV2 || K || T) ^ (0* || K) with IV byte 0 = 0x82 / 0xa2, then for every block
 *     S = p^b(S), C_i = P_i xor first r bytes of S (last block truncated, no padding).
 * Where the prose of siv.dox lists "XOR, then apply the permutation" for the keystream pass, the diagram
 * applies p^b before the first block; the diagram is taken as the documented construction (the prose order
 * would expose the unpermuted rate of the initial state as the first keystream block). */
#ifndef VERIF_SPEC_SIV_H
#define VERIF_SPEC_SIV_H
#include "spec_aead.h"

static inline spec_state spec_siv_init(const spec_aead_params *pa, unsigned phase, const uint8_t *k, const uint8_t *n16)
{
    spec_state s = {{0, 0, 0, 0, 0}};
    uint8_t iv[8]; unsigned i;
    for (i = 0; i < 8; ++i) iv[i] = pa->iv[i];
    iv[0] = (uint8_t)(iv[0] | phase);                            /* 0x80 -> 0x81 / 0x82, 0xa0 -> 0xa1 / 0xa2 */
    s = spec_xor_bytes(s, 0, iv, pa->ivlen);
    s = spec_xor_bytes(s, pa->ivlen, k, pa->keylen);
    s = spec_xor_bytes(s, pa->ivlen + pa->keylen, n16, 16);
    s = spec_P(s, 0);
    return spec_xor_bytes(s, 40 - pa->keylen, k, pa->keylen);
}

static inline void spec_siv_auth(const spec_aead_params *pa, const uint8_t *k, const uint8_t *npub,
                                 const uint8_t *ad, size_t adlen, const uint8_t *m, size_t mlen, uint8_t tag[16])
{
    unsigned i;
    spec_state s = spec_siv_init(pa, 1, k, npub);
    if (adlen > 0)
        s = spec_absorb_all(s, ad, adlen, pa->rate, pa->round_b, 1);
    s = spec_separator(s);
    s = spec_absorb_all(s, m, mlen, pa->rate, pa->round_b, 0);  /* padded; no p^b after the last block */
    s = spec_xor_bytes(s, pa->rate, k, pa->keylen);
    s = spec_P(s, 0);
    for (i = 0; i < 16; ++i)
        tag[i] = (uint8_t)(spec_get(s, 24 + i) ^ k[pa->keylen - 16 + i]);
}

static inline void spec_siv_stream(const spec_aead_params *pa, const uint8_t *k, const uint8_t tag[16],
                                   const uint8_t *src, uint8_t *dest, size_t len)
{
    size_t i;
    spec_state s = spec_siv_init(pa, 2, k, tag);
    for (i = 0; i < len; ++i) {
        if (i % pa->rate == 0)
            s = spec_P(s, pa->round_b);
        dest[i] = (uint8_t)(src[i] ^ spec_get(s, (unsigned)(i % pa->rate)));
    }
}
#endif
