/* Byte-serial specification of the three incremental sponge families of the
 * library - ASCON-XOF/HASH (ascon-xof.c), ASCON-XOFA/HASHA (ascon-xofa.c) and
 * ASCON-PRF/MAC (ascon-prf.c) - as one automaton over (state, count, mode)
 * with the parameters that distinguish them.  Written from ASCON v1.2
 * (section 2.5, Algorithm 2: absorb r-bit blocks with 10* padding, p^a after
 * the padded last block, p^b between blocks) and the ASCON-PRF document.
 * "lazy" / "eager" describes WHEN the library applies the permutation that the
 * specification places between two output blocks; the squeezed bytes are the
 * same, and the automaton follows the library's documented state machine so
 * that interleaving absorb and squeeze calls is specified too. */
#ifndef VERIF_SPEC_XOF_H
#define VERIF_SPEC_XOF_H
#include "spec_sponge.h"

typedef struct {
    unsigned rate_in;        /* 8 (XOF, XOFA) or 32 (PRF) */
    unsigned rate_out;       /* 8 or 16 (PRF) */
    unsigned round_absorb;   /* first round of the permutation between absorbed blocks: 0 (p^12) or 4 (p^8, XOFA) */
    unsigned round_squeeze;  /* first round of the permutation between squeezed blocks: 0, or 4 (XOFA) */
    unsigned eager;          /* XOFA: permute when entering the squeeze phase and right after each full output block */
    unsigned separator;      /* PRF: domain separation bit when the input is finished */
} spec_sponge_params;

static const spec_sponge_params SPEC_XOF  = {8, 8, 0, 0, 0, 0};
static const spec_sponge_params SPEC_XOFA = {8, 8, 4, 4, 1, 0};
static const spec_sponge_params SPEC_PRF  = {32, 16, 0, 0, 0, 1};

typedef struct { spec_state s; unsigned count; unsigned mode; } spec_sponge;

/* one absorb CALL with n bytes (by value: under DFCC every store through a
 * pointer is checked against the write set, which dominates the formula) */
static inline spec_sponge spec_sponge_absorb_v(const spec_sponge_params *pp, spec_sponge sp, const uint8_t *d, size_t n)
{
    size_t i;
    unsigned rate_in = pp->rate_in, round_absorb = pp->round_absorb;
    if (sp.mode) {                    /* back from squeezing: a full permutation separates the phases */
        sp.mode = 0;
        sp.count = 0;
        sp.s = spec_P(sp.s, 0);
    }
    for (i = 0; i < n; ++i) {
        sp.s = spec_xor(sp.s, sp.count, d[i]);
        if (++sp.count == rate_in) {
            sp.s = spec_P(sp.s, round_absorb);
            sp.count = 0;
        }
    }
    return sp;
}
static inline void spec_sponge_absorb(const spec_sponge_params *pp, spec_sponge *sp, const uint8_t *d, size_t n)
{
    *sp = spec_sponge_absorb_v(pp, *sp, d, n);
}

/* one squeeze CALL producing n bytes */
static inline spec_sponge spec_sponge_squeeze_v(const spec_sponge_params *pp, spec_sponge sp, uint8_t *out, size_t n)
{
    size_t i;
    unsigned rate_out = pp->rate_out, round_squeeze = pp->round_squeeze, eager = pp->eager;
    if (!sp.mode) {                   /* input finished: 10* padding (and separator), p^a */
        sp.s = spec_pad(sp.s, sp.count);
        if (pp->separator)
            sp.s = spec_separator(sp.s);
        sp.count = 0;
        sp.mode = 1;
        if (eager)
            sp.s = spec_P(sp.s, 0);
    }
    for (i = 0; i < n; ++i) {
        if (!eager && sp.count == 0)
            sp.s = spec_P(sp.s, round_squeeze);   /* all round numbers are 0 for the lazy families */
        out[i] = spec_get(sp.s, sp.count);
        if (++sp.count == rate_out) {
            sp.count = 0;
            if (eager)
                sp.s = spec_P(sp.s, round_squeeze);
        }
    }
    return sp;
}
static inline void spec_sponge_squeeze(const spec_sponge_params *pp, spec_sponge *sp, uint8_t *out, size_t n)
{
    *sp = spec_sponge_squeeze_v(pp, *sp, out, n);
}

#endif
