/* Reference for ISAP-A-128A, ISAP-A-128 (ISAP v2.0, NIST LWC finalist specification, Algorithms 1-4) and the
 * 160-bit-key variant ISAP-A-80PQ, over an abstract 320-bit permutation SPEC_PERM(s, first_round) with
 * p^n = rounds 12-n .. 11:
 *   IV_x = x || k || r_H || r_B || s_H || s_B || s_E || s_K (one byte each), x = 1 (A), 2 (KA), 3 (KE)
 *   ISAP_RK(K, x, Y, z): S = p^sK(K || IV_x || 0*); for the first |Y|-1 bits y: S = p^sB(S xor (y || 0*));
 *                        S = p^sK(S xor (y_last || 0*)); return the first z bits of S         (r_B = 1 bit)
 *   ISAP_ENC(K, N, M):   S = ISAP_RK(K, KE, N, 320 - 128) || N; per 64-bit block: S = p^sE(S), C_i = M_i xor S[0..8)
 *   ISAP_MAC(K, N, A, C): S = p^sH(N || IV_A || 0*); absorb pad(A) in 64-bit blocks, p^sH after each;
 *                        S ^= 0^319 || 1; absorb pad(C) likewise; Y = first k bits; S = ISAP_RK(K, KA, Y, k) || rest of S;
 *                        S = p^sH(S); T = first 128 bits            (pad = 1 || 0*, always at least one block)
 *   Encrypt-then-MAC: C = ENC(M), T = MAC(N, A, C); decrypt verifies T first over the received C. */
#ifndef VERIF_SPEC_ISAP_H
#define VERIF_SPEC_ISAP_H
#include "spec_sponge.h"
#ifndef SPEC_PERM
#define SPEC_PERM(s, r) spec_P((s), (r))
#endif

typedef struct { unsigned keylen, sH, sB, sE, sK; } spec_isap_params;
static const spec_isap_params SPEC_ISAP_128A = {16, 12, 1, 6, 12};
static const spec_isap_params SPEC_ISAP_128 = {16, 12, 12, 12, 12};
static const spec_isap_params SPEC_ISAP_80PQ = {20, 12, 12, 12, 12};

static inline spec_state spec_isap_iv(const spec_isap_params *pa, spec_state s, unsigned off, unsigned x)
{
    s = spec_xor(s, off + 0, (uint8_t)x); s = spec_xor(s, off + 1, (uint8_t)(pa->keylen * 8)); s = spec_xor(s, off + 2, 64);
    s = spec_xor(s, off + 3, 1); s = spec_xor(s, off + 4, (uint8_t)pa->sH); s = spec_xor(s, off + 5, (uint8_t)pa->sB);
    s = spec_xor(s, off + 6, (uint8_t)pa->sE); s = spec_xor(s, off + 7, (uint8_t)pa->sK);
    return s;
}

/* first step of the re-keying function: S = p^sK(K || IV_x || 0*) - depends on the key only (this is what the
 * library pre-computes into ascon*_isap_aead_key_t) */
static inline spec_state spec_isap_rk0(const spec_isap_params *pa, const uint8_t *k, unsigned x)
{
    spec_state s = {{0, 0, 0, 0, 0}};
    unsigned i;
    for (i = 0; i < pa->keylen; ++i) s = spec_xor(s, i, k[i]);
    s = spec_isap_iv(pa, s, pa->keylen, x);
    return SPEC_PERM(s, 12 - pa->sK);
}
/* rest of the re-keying function: absorb Y bit by bit; whole state returned (the caller takes the first z bits) */
static inline spec_state spec_isap_rk(const spec_isap_params *pa, spec_state s, const uint8_t *y, unsigned ylen)
{
    unsigned i, nbits = ylen * 8;
    for (i = 0; i < nbits; ++i) {
        s = spec_xor(s, 0, (uint8_t)(((y[i / 8] << (i % 8)) & 0x80)));
        s = SPEC_PERM(s, i + 1 < nbits ? 12 - pa->sB : 12 - pa->sK);
    }
    return s;
}

/* ke0 = spec_isap_rk0(K, 3), ka0 = spec_isap_rk0(K, 2) */
static inline void spec_isap_enc(const spec_isap_params *pa, spec_state ke0, const uint8_t *npub,
                                 const uint8_t *src, uint8_t *dest, size_t len)
{
    size_t i; unsigned j;
    spec_state s = spec_isap_rk(pa, ke0, npub, 16);
    for (j = 0; j < 16; ++j) s = spec_xor(s, 24 + j, (uint8_t)(spec_get(s, 24 + j) ^ npub[j]));   /* S = K_E* (192 bits) || N */
    for (i = 0; i < len; ++i) {
        if (i % 8 == 0) s = SPEC_PERM(s, 12 - pa->sE);
        dest[i] = (uint8_t)(src[i] ^ spec_get(s, (unsigned)(i % 8)));
    }
}

static inline spec_state spec_isap_absorb(const spec_isap_params *pa, spec_state s, const uint8_t *d, size_t len)
{
    size_t i;
    for (i = 0; i < len; ++i) {
        s = spec_xor(s, (unsigned)(i % 8), d[i]);
        if (i % 8 == 7) s = SPEC_PERM(s, 12 - pa->sH);
    }
    s = spec_xor(s, (unsigned)(len % 8), 0x80);
    return SPEC_PERM(s, 12 - pa->sH);
}

static inline void spec_isap_mac(const spec_isap_params *pa, spec_state ka0, const uint8_t *npub,
                                 const uint8_t *ad, size_t adlen, const uint8_t *c, size_t clen, uint8_t tag[16])
{
    spec_state s = {{0, 0, 0, 0, 0}}, kk;
    uint8_t y[20]; unsigned i;
    for (i = 0; i < 16; ++i) s = spec_xor(s, i, npub[i]);
    s = spec_isap_iv(pa, s, 16, 1);
    s = SPEC_PERM(s, 12 - pa->sH);
    s = spec_isap_absorb(pa, s, ad, adlen);
    s = spec_xor(s, 39, 0x01);
    s = spec_isap_absorb(pa, s, c, clen);
    for (i = 0; i < pa->keylen; ++i) y[i] = spec_get(s, i);
    kk = spec_isap_rk(pa, ka0, y, pa->keylen);
    for (i = 0; i < pa->keylen; ++i) s = spec_xor(s, i, (uint8_t)(spec_get(s, i) ^ spec_get(kk, i)));   /* S = K_A* || rest */
    s = SPEC_PERM(s, 12 - pa->sH);
    for (i = 0; i < 16; ++i) tag[i] = spec_get(s, i);
}
#endif
