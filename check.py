#!/usr/bin/env python3
"""check.py <property-id> [--tier quick|thorough] [--replay <file>] [--list]

Decides one property of /verif/properties.jsonl for /repo's current working
tree by contract-based deductive verification (CBMC code contracts, DFCC).
exit 0: every obligation discharged (known findings excepted, each printed as
        "KNOWN-FINDING: property=<id> ...");
exit 1: a named obligation failed: "VIOLATION property=<id> replay=<path>";
exit 2: the machinery could not reach a verdict (tool error, timeout,
        missing obligation class, vacuous harness) - never a verdict.
"""
import argparse
import importlib
import json
import os
import random
import sys
import time

HERE = os.path.dirname(os.path.abspath(__file__))
sys.path.insert(0, os.path.join(HERE, "lib"))
sys.path.insert(0, HERE)

import driver  # noqa: E402
import report  # noqa: E402


def main():
    ap = argparse.ArgumentParser()
    ap.add_argument("prop", nargs="?")
    ap.add_argument("--tier", default=os.environ.get("VERIF_TIER", "quick"))
    ap.add_argument("--replay")
    ap.add_argument("--only", default=os.environ.get("VERIF_ONLY") or None, help="substring filter on group names (debugging; evidence not written)")
    ap.add_argument("--list", action="store_true")
    ap.add_argument("--jobs", type=int, default=int(os.environ.get("VERIF_JOBS", "0")) or None)
    ap.add_argument("--keep", action="store_true")
    ap.add_argument("--seed-add", type=int, default=0, help="added to VERIF_SEED (a second rotation of the seed-sampled groups)")
    a = ap.parse_args()
    if a.replay:
        return report.run_replay(a.replay)
    if a.tier not in ("quick", "thorough"):
        a.tier = "quick"
    seed = int(os.environ.get("VERIF_SEED", "0") or 0) + a.seed_add
    os.environ["VERIF_SEED"] = str(seed)          # the property modules read the seed from the environment
    pid = a.prop.upper()
    mod = importlib.import_module("props." + pid.lower())
    groups = [g for g in mod.groups(a.tier) if a.tier in g.tiers]
    if a.only:
        groups = [g for g in groups if a.only in g.name]
    if a.list:
        for g in groups:
            print(g.name, g.kind, g.cfg, g.enforce or "-")
        return 0
    # vacuity pass: thorough = every group; quick = a rotating third chosen by seed
    rnd = random.Random(seed)
    names = sorted(g.name for g in groups if getattr(g, "reach", True))
    if a.tier == "thorough":
        # every group gets its vacuity pass, except in the very large enumerations (thousands of groups that differ only
        # in a constant position/length and share one harness), where a seed-rotated quarter is re-run for vacuity
        k = seed % 4
        reach = set(names) if len(names) <= 600 else set(n for i, n in enumerate(names) if i % 4 == k)
    else:
        k = seed % 3
        reach = set(n for i, n in enumerate(names) if i % 3 == k)
    t0 = time.time()
    print("property %s tier %s: %d groups (%d with vacuity pass), repo %s" %
          (pid, a.tier, len(groups), len(reach), driver.REPO), flush=True)
    results = driver.run_groups(groups, jobs=a.jobs, reach_names=reach)
    extra = None
    if hasattr(mod, "custom") and not a.only:
        try:
            extra = mod.custom(a.tier, results)
        except Exception as e:       # machinery failure: never a verdict
            print("UNDECIDED custom part of %s: %r" % (pid, e))
            return 2
    wall = time.time() - t0
    return report.conclude(pid, a.tier, seed, mod, results, wall, write_evidence=not a.only, extra=extra)


if __name__ == "__main__":
    sys.exit(main())
