#!/usr/bin/env python3
"""Driver for contract-based verification of /repo with CBMC (goto-cc,
goto-instrument --dfcc, cbmc).  See /verif/DESIGN.md sections 3.4-3.6.

A *group* is one goto-cc / goto-instrument / cbmc pipeline: one harness, at
most one enforced function contract, any number of callee contracts used in
replaced form, optional loop contracts, one build configuration.
"""
import hashlib
import json
import os
import threading
import re
import shlex
import shutil
import subprocess
import sys
import time
from concurrent.futures import ThreadPoolExecutor, as_completed

VERIF = os.path.dirname(os.path.dirname(os.path.abspath(__file__)))
REPO = os.environ.get("VERIF_REPO", "/repo")
BUILD = os.path.join(VERIF, "build")
REPLAYS = os.path.join(VERIF, "replays")
# the registered commands always write /verif/evidence; tools/run_seeded.sh redirects its mutant runs elsewhere
EVIDENCE = os.environ.get("VERIF_EVIDENCE_DIR") or os.path.join(VERIF, "evidence")

GUARD = "ASCON_SUITE_VERIF"

# build configurations of the library (DESIGN section 4: K)
CONFIGS = {
    "C64": ["-DASCON_FORCE_C64"],
    "C32": ["-DASCON_FORCE_C32"],
    "DX": ["-DASCON_FORCE_DIRECT_XOR"],
    "GEN": ["-DASCON_FORCE_GENERIC"],
    "GENCHK": ["-DASCON_FORCE_GENERIC", "-DASCON_CHECK_ACQUIRE_RELEASE"],
    # default on this host: sliced64 C helpers around the x86-64 assembly
    # permutation (the permutation itself is then an assumed contract)
    "DEF": [],
}

SAFETY_FLAGS = [
    "--bounds-check", "--pointer-check", "--pointer-overflow-check",
    "--signed-overflow-check", "--undefined-shift-check",
    "--div-by-zero-check", "--pointer-primitive-check",
]
# off where the code's documented semantics rely on modular arithmetic
WRAP_FLAGS = ["--unsigned-overflow-check", "--conversion-check"]

MEM_LIMIT_KB = 24 * 1024 * 1024


class Group:
    def __init__(self, name, props, harness, entry, srcs, cfg="C64",
                 enforce=None, replace=(), defs=(), contracts=(),
                 unwind_pre=(), unwind=None, unwindset=(), loop_contracts=False,
                 wrap_checks=False, kind="proof", timeout=900, bound=None,
                 must_fail=(), expect_classes=(), replay=None, tiers=("quick", "thorough"),
                 functions=(), extra_cbmc=(), note="", safety=True, assumed=(),
                 drop_unused=False, object_bits=None, nondet_static=False, trace=True, lift=None):
        self.name = name
        self.props = list(props)
        self.harness = harness
        self.entry = entry
        self.srcs = list(srcs)
        self.cfg = cfg
        self.enforce = enforce
        self.replace = list(replace)
        self.defs = list(defs)
        self.contracts = list(contracts)
        self.unwind_pre = list(unwind_pre)      # applied with goto-instrument before dfcc
        self.unwind = unwind                    # cbmc --unwind N
        self.unwindset = list(unwindset)        # cbmc --unwindset
        self.loop_contracts = loop_contracts
        self.wrap_checks = wrap_checks
        self.kind = kind                        # "proof" | "bounded"
        self.bound = bound                      # stated bound for bounded groups
        self.timeout = timeout
        self.must_fail = list(must_fail)        # obligations that MUST be refuted (substring of description)
        self.expect_classes = list(expect_classes)
        self.mem_gb = 2       # expected peak solver memory (GB); run_groups keeps the sum under MEM_BUDGET_GB
        self.lift = lift      # (asm path relative to /repo, [--fn=... signatures]): lifted to C into the build dir on every run
        self.replay = replay
        self.tiers = tiers
        self.functions = list(functions) or ([enforce] if enforce else [])
        self.extra_cbmc = list(extra_cbmc)
        self.note = note
        self.safety = safety
        self.assumed = list(assumed)            # contracts used in replaced form that no group enforces
        self.drop_unused = drop_unused
        self.object_bits = object_bits
        self.nondet_static = nondet_static
        self.trace = trace                      # False where CBMC 6.11 crashes while building the counterexample trace


class Result:
    def __init__(self, group):
        self.group = group
        self.status = "error"       # pass | fail | error
        self.error = ""
        self.obligations = 0
        self.discharged = 0
        self.failed = []            # list of dicts
        self.classes = {}
        self.wall = 0.0
        self.solver_s = 0.0
        self.mem_gb = 0.0
        self.cmds = []
        self.samples = []
        self.log = ""
        self.must_fail_seen = []
        self.warnings = []
        self.unknown = 0            # obligations left undecided by cbmc (it stops refining after a failure)


def _run(cmd, cwd, timeout, log, limit_mem=True):
    t0 = time.time()
    pre = "ulimit -v %d; " % MEM_LIMIT_KB if limit_mem else ""
    try:
        p = subprocess.run(["bash", "-c", pre + "exec " + " ".join(shlex.quote(c) for c in cmd)],
                           cwd=cwd, stdout=subprocess.PIPE, stderr=subprocess.PIPE,
                           timeout=timeout)
        rc, out, err = p.returncode, p.stdout.decode(errors="replace"), p.stderr.decode(errors="replace")
    except subprocess.TimeoutExpired as e:
        rc, out, err = -999, (e.stdout or b"").decode(errors="replace"), "TIMEOUT after %ss" % timeout
    dt = time.time() - t0
    log.write("$ %s\n[rc=%s, %.1fs]\n" % (" ".join(shlex.quote(c) for c in cmd), rc, dt))
    if err:
        log.write(err[-4000:] + "\n")
    return rc, out, err, dt


def obligation_class(name):
    parts = name.split(".")
    while len(parts) > 1 and parts[-1].isdigit():
        parts.pop()
    return parts[-1]


def include_flags():
    return ["-I" + os.path.join(REPO, "src"), "-I" + os.path.join(VERIF, "include"),
            "-I" + os.path.join(VERIF, "spec"), "-I" + os.path.join(VERIF, "contracts"),
            "-I" + os.path.join(VERIF, "harness")]


def run_group(g, reach=False, keep=False):
    """Build and verify one group from /repo's current working tree."""
    r = Result(g)
    t0 = time.time()
    d = os.path.join(BUILD, g.name + (".reach" if reach else ""))
    shutil.rmtree(d, ignore_errors=True)          # never reuse a stale binary
    os.makedirs(d)
    logf = open(os.path.join(d, "log.txt"), "w")
    try:
        defs = ["-D" + GUARD] + CONFIGS[g.cfg] + ["-D" + x for x in g.defs]
        if reach:
            defs.append("-DVERIF_REACH")
        if g.lift:
            lifted = os.path.join(d, "lifted.c")
            tool = "lift_i386.py" if "i386" in g.lift[0] else "lift_riscv.py" if "riscv" in g.lift[0] else "lift_arm64.py" if "armv8a" in g.lift[0] else "lift_arm32.py" if "-armv" in g.lift[0] else "lift_xtensa.py" if "xtensa" in g.lift[0] else "lift_m68k.py" if "m68k" in g.lift[0] else "lift_avr.py" if "avr5" in g.lift[0] else "lift_x86_64.py"
            cmd = ["python3", os.path.join(VERIF, "tools", tool), os.path.join(REPO, g.lift[0]), lifted] + list(g.lift[1]) + \
                  ["--cpp=" + x for x in CONFIGS[g.cfg]] + ["--cpp=-D" + x for x in g.defs if x.startswith("ASCON_")]
            rc, out, err, dt = _run(cmd, d, 120, logf)
            r.cmds.append(" ".join(cmd))
            if rc != 0 or not os.path.exists(lifted):
                r.error = "assembly extraction failed: " + (err or out)[-1500:]
                return r
            defs.append('-DVERIF_LIFTED="%s"' % lifted)
        cc = ["goto-cc"] + defs + include_flags()
        for c in g.contracts:
            cc += ["-include", os.path.join(VERIF, c)]
        base_cc = list(cc)
        cc += ["--function", g.entry, os.path.join(VERIF, g.harness)]
        n_sep = 0
        for s in g.srcs:
            if isinstance(s, (tuple, list)):
                # (path, [extra -D]) : compiled separately (e.g. to rename a function that a
                # specification stub in the harness stands in for), then linked
                path, extra = s
                path = path if os.path.isabs(path) else os.path.join(REPO, path)
                obj = os.path.join(d, "sep%d.o" % n_sep)
                n_sep += 1
                c1 = base_cc + ["-D" + x for x in extra] + ["-c", path, "-o", obj]
                rc, out, err, dt = _run(c1, d, 300, logf)
                r.cmds.append(" ".join(c1))
                if rc != 0 or not os.path.exists(obj):
                    r.error = "goto-cc failed: " + (err or out)[-1500:]
                    return r
                cc.append(obj)
            else:
                cc.append(s if os.path.isabs(s) else os.path.join(REPO, s))
        a = os.path.join(d, "a.gb")
        cc += ["-o", a]
        rc, out, err, dt = _run(cc, d, 300, logf)
        r.cmds.append(" ".join(cc))
        if rc != 0 or not os.path.exists(a):
            r.error = "goto-cc failed: " + (err or out)[-1500:]
            return r
        cur = a
        if g.drop_unused:
            nxt = os.path.join(d, "a0.gb")
            cmd = ["goto-instrument", "--drop-unused-functions", cur, nxt]
            rc, out, err, dt = _run(cmd, d, 300, logf)
            if rc != 0 or not os.path.exists(nxt):
                r.error = "drop-unused failed: " + (err or out)[-1500:]
                return r
            cur = nxt
        if g.unwind_pre:
            nxt = os.path.join(d, "a1.gb")
            cmd = ["goto-instrument", "--unwindset", ",".join(g.unwind_pre),
                   "--unwinding-assertions", cur, nxt]
            rc, out, err, dt = _run(cmd, d, 300, logf)
            r.cmds.append(" ".join(cmd))
            if rc != 0 or not os.path.exists(nxt):
                r.error = "pre-unwind failed: " + (err or out)[-1500:]
                return r
            cur = nxt
        if g.enforce or g.replace or g.loop_contracts:
            nxt = os.path.join(d, "b.gb")
            cmd = ["goto-instrument", "--dfcc", g.entry]
            if g.enforce:
                cmd += ["--enforce-contract", g.enforce]
            for f in g.replace:
                cmd += ["--replace-call-with-contract", f]
            if g.loop_contracts:
                cmd += ["--apply-loop-contracts"]
            cmd += [cur, nxt]
            rc, out, err, dt = _run(cmd, d, 600, logf)
            r.cmds.append(" ".join(cmd))
            if rc != 0 or not os.path.exists(nxt):
                r.error = "goto-instrument --dfcc failed: " + (err or out)[-2500:]
                return r
            cur = nxt
        cb = ["cbmc", "--sat-solver", "cadical", "--json-ui"] + (["--trace"] if g.trace else [])
        if g.safety:
            cb += SAFETY_FLAGS
            if g.wrap_checks:
                cb += WRAP_FLAGS
        if g.unwind is not None:
            cb += ["--unwind", str(g.unwind)]
        if g.unwindset:
            # DFCC moves the body of the enforced function to <f>_wrapped_for_contract_checking
            us = [(u.replace(g.enforce + ".", g.enforce + "_wrapped_for_contract_checking.", 1)
                   if g.enforce and u.startswith(g.enforce + ".") else u) for u in g.unwindset]
            cb += ["--unwindset", ",".join(us)]
        if (g.unwind is not None or g.unwindset) and "--no-unwinding-assertions" not in g.extra_cbmc:
            cb += ["--unwinding-assertions"]
        if g.object_bits:
            cb += ["--object-bits", str(g.object_bits)]
        if g.nondet_static:
            cb += ["--nondet-static"]
        cb += g.extra_cbmc
        cb += [cur]
        rss = os.path.join(d, "rss.txt")
        rc, out, err, dt = _run(["/usr/bin/time", "-f", "%M", "-o", rss] + cb, d, g.timeout, logf)
        r.cmds.append(" ".join(cb))
        r.solver_s = dt
        try:
            r.mem_gb = round(int(open(rss).read().split()[-1]) / 1048576.0, 2)       # peak resident set of the solver process
        except Exception:
            r.mem_gb = 0.0
        if keep or True:
            with open(os.path.join(d, "result.json"), "w") as f:
                f.write(out)
        if rc == -999:
            r.error = "cbmc timeout after %ds" % g.timeout
            return r
        try:
            js = json.loads(out)
        except Exception as e:
            r.error = "cbmc output not JSON (rc=%s): %s %s" % (rc, out[-800:], err[-800:])
            return r
        results = None
        for item in js:
            if isinstance(item, dict):
                if "result" in item:
                    results = item["result"]
                if item.get("messageType") in ("ERROR",):
                    r.warnings.append(item.get("messageText", ""))
                if item.get("messageType") == "WARNING" and "ignoring" in item.get("messageText", ""):
                    r.warnings.append(item.get("messageText", ""))
        if results is None:
            r.error = "cbmc produced no result list (rc=%s): %s" % (rc, "; ".join(r.warnings)[-1500:] or out[-1500:])
            return r
        for w in r.warnings:
            if "ignoring" in w:
                r.error = "solver dropped a quantifier: " + w
                return r
        for o in results:
            name = o.get("property", "?")
            desc = o.get("description", "")
            st = o.get("status")
            cls = obligation_class(name)
            is_reach = desc.startswith("REACH:")
            is_must_fail = any(m in desc for m in g.must_fail)
            if is_reach:
                if reach:
                    r.obligations += 1
                    if st == "FAILURE":
                        r.discharged += 1
                    else:
                        r.failed.append({"property": name, "description": desc + " (unreachable: vacuous preconditions)",
                                         "status": st, "location": o.get("sourceLocation", {}), "trace": []})
                continue
            if reach:
                continue
            r.obligations += 1
            r.classes[cls] = r.classes.get(cls, 0) + 1
            if st not in ("SUCCESS", "FAILURE"):
                r.unknown += 1
                continue
            ok = (st == "FAILURE") if is_must_fail else (st == "SUCCESS")
            if is_must_fail and st == "FAILURE":
                r.must_fail_seen.append(desc)
            if ok:
                r.discharged += 1
                if len(r.samples) < 3 and cls in ("postcondition", "loop_invariant_step", "assertion", "assigns"):
                    loc = o.get("sourceLocation", {})
                    r.samples.append({"obligation": name, "description": desc[:200],
                                      "at": "%s:%s" % (os.path.relpath(loc.get("file", "?"), "/") if loc.get("file") else "?", loc.get("line", "?")),
                                      "status": "refuted as required" if is_must_fail else "discharged"})
            else:
                r.failed.append({"property": name, "description": desc, "status": st,
                                 "location": o.get("sourceLocation", {}),
                                 "trace": o.get("trace", []), "must_fail": is_must_fail})
        for m in g.must_fail:
            if not reach and not any(m in dsc for dsc in r.must_fail_seen) and \
               not any(m in f["description"] for f in r.failed):
                r.error = "must-fail obligation %r not generated" % m
                return r
        for c in g.expect_classes:
            if not reach and r.classes.get(c, 0) == 0:
                r.error = "expected obligation class %r missing (contract silently dropped?)" % c
                return r
        if r.obligations == 0:
            r.error = "zero obligations generated (vacuous)"
            return r
        if r.unknown and not r.failed:
            r.error = "%d obligations undecided (status UNKNOWN) and none failed" % r.unknown
            return r
        r.status = "pass" if not r.failed else "fail"
        return r
    finally:
        r.wall = time.time() - t0
        logf.close()
        try:
            r.log = open(os.path.join(d, "log.txt")).read()
        except Exception:
            pass
        if not keep:
            for fn in ("a.gb", "a0.gb", "a1.gb", "b.gb"):
                try:
                    os.remove(os.path.join(d, fn))
                except OSError:
                    pass
            if r.status == "pass":
                # disk space: a passing group leaves nothing behind (the JSON result of one group is several MB and the
                # thorough tiers run thousands of groups); failing / undecided groups keep log.txt and result.json
                shutil.rmtree(d, ignore_errors=True)


def trace_inputs(trace, maxn=400):
    """Extract named harness inputs (assignments in the harness file to
    variables, and nondet return values) from a CBMC JSON trace."""
    vals = {}
    order = []
    for st in trace:
        if st.get("stepType") != "assignment":
            continue
        if st.get("hidden"):
            continue
        lhs = st.get("lhs", "")
        if not lhs or lhs.startswith("__CPROVER") or "$" in lhs and "return_value" not in lhs:
            continue
        v = st.get("value", {})
        data = v.get("data")
        if data is None:
            # struct / array: flatten members that carry data
            data = json.dumps(v)[:300]
        if lhs not in vals:
            order.append(lhs)
        vals[lhs] = data
    return [(k, vals[k]) for k in order][:maxn]


MEM_BUDGET_GB = int(os.environ.get("VERIF_MEM_GB", "0") or 0) or 44     # total solver memory allowed to run concurrently
_mem_cv = threading.Condition()
_mem_used = [0]


def mem_key(g):
    return "%s|%s|%s" % (os.path.basename(g.harness), g.enforce or "", g.cfg)


try:
    MEM_PROFILE = json.load(open(os.path.join(VERIF, "lib", "mem_profile.json")))
    MEM_SMALL = set(MEM_PROFILE.get("small", []))
except Exception:
    MEM_PROFILE, MEM_SMALL = {}, set()


def mem_estimate(g):
    """expected peak solver memory of a group in GB, from lib/mem_profile.json (built from earlier evidence by
    tools/mem_profile.py): the group's own recorded peak if it was seen before, else the largest peak recorded for its
    (harness, enforced function, configuration), else a default"""
    n = g.name.split(".", 1)[1] if "." in g.name else g.name
    if n in MEM_PROFILE.get("names", {}):
        est = MEM_PROFILE["names"][n]
    elif n in MEM_SMALL:
        est = 1
    else:
        est = MEM_PROFILE.get("keys", {}).get(mem_key(g))
        if est is None:
            est = {"h_isap.c": 5, "h_asconsum.c": 11}.get(os.path.basename(g.harness), 2)
    return max(getattr(g, "mem_gb", 0) or 0, est)


def _mem_available_gb():
    try:
        for line in open("/proc/meminfo"):
            if line.startswith("MemAvailable:"):
                return int(line.split()[1]) / 1048576.0
    except Exception:
        pass
    return 1e9


def _run_group_mem(g, reach):
    """run_group under a memory budget: a group's expected peak is reserved from MEM_BUDGET_GB before it starts (the kernel's
    OOM killer otherwise shoots solver processes: seen with 16 x 10 GB), and the start is delayed while the machine has less
    than that plus a reserve actually available."""
    need = min(max(1, int(mem_estimate(g) + 1.5)), MEM_BUDGET_GB)
    with _mem_cv:
        while _mem_used[0] + need > MEM_BUDGET_GB:
            _mem_cv.wait()
        _mem_used[0] += need
    try:
        waited = 0
        while _mem_available_gb() < need + 6 and waited < 1800:
            time.sleep(3)
            waited += 3
        return run_group(g, reach)
    finally:
        with _mem_cv:
            _mem_used[0] -= need
            _mem_cv.notify_all()


def run_groups(groups, jobs=None, reach_names=()):
    jobs = jobs or min(16, os.cpu_count() or 4)
    results = []
    work = [(g, False) for g in groups] + [(g, True) for g in groups if g.name in reach_names]
    # longest first
    with ThreadPoolExecutor(max_workers=jobs) as ex:
        futs = {ex.submit(_run_group_mem, g, reach): (g, reach) for g, reach in work}
        for f in as_completed(futs):
            g, reach = futs[f]
            try:
                res = f.result()
            except Exception as e:  # infrastructure failure
                res = Result(g)
                res.error = "driver exception: %r" % (e,)
            res.reach = reach
            results.append(res)
            tag = g.name + (" [reach]" if reach else "")
            if res.status == "pass":
                print("  ok    %-46s %4d obligations  %6.1fs" % (tag, res.obligations, res.wall), flush=True)
            elif res.status == "fail":
                print("  FAIL  %-46s %d of %d obligations failed  %6.1fs" % (tag, len(res.failed), res.obligations, res.wall), flush=True)
            else:
                print("  ERROR %-46s %s" % (tag, res.error.strip().splitlines()[-1] if res.error.strip() else "?"), flush=True)
    return results
