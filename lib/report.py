"""Verdicts, replay files, known findings and evidence (DESIGN 3.5, 3.6)."""
import glob
import json
import os
import re
import shlex
import subprocess
import sys
import time

import driver

VERIF = driver.VERIF
KNOWN = os.path.join(VERIF, "known_findings.json")

TRUSTED_BASE = [
    "CBMC 6.11.0 (goto-cc, goto-instrument --dfcc contract instrumentation, symex, bit-precise encoding) and CaDiCaL",
    "CBMC's byte-granular memory model (no alignment faults) and its models of memcpy/memset/strlen",
    "the specification transcription under /verif/spec (cross-checked natively against /repo/test/kat vectors by selftest)",
    "gcc compiling the guard-off sources to what the C semantics modelled by CBMC say",
]


def load_known():
    try:
        return json.load(open(KNOWN))
    except Exception:
        return {"findings": [], "fixed": []}


def match_known(pid, group, fail, known):
    for k in known.get("findings", []):
        if k.get("property") != pid:
            continue
        if k.get("group") and k["group"] not in group.name:
            continue
        if k.get("obligation") and k["obligation"] not in fail["description"]:
            continue
        return k
    return None


def scan_assumes(paths):
    out = []
    for p in paths:
        try:
            lines = open(p).read().splitlines()
        except Exception:
            continue
        for i, l in enumerate(lines):
            if "__CPROVER_assume" in l and not l.strip().startswith(("*", "/*", "//")):
                out.append("%s:%d: %s" % (os.path.relpath(p, VERIF), i + 1, l.strip()[:160]))
    return out


def native_replay(pid, g, fail, inputs, path_base):
    """Try to reproduce the failure against the real code, natively.
    Returns (reproduced: bool|None, text)."""
    rp = g.replay
    if not rp:
        return None, "no native replay program is registered for this group"
    bdir = os.path.join(driver.BUILD, "replay." + g.name)
    os.makedirs(bdir, exist_ok=True)
    exe = os.path.join(bdir, "replay")
    inp = path_base + ".inputs"
    with open(inp, "w") as f:
        for k, v in inputs:
            f.write("%s=%s\n" % (k, v))
    srcs = [os.path.join(VERIF, rp["prog"])] + [s if os.path.isabs(s) else os.path.join(driver.REPO, s) for s in rp.get("srcs", [x if isinstance(x, str) else x[0] for x in g.srcs])]
    cc = ["gcc", "-O1", "-w", "-std=gnu99"] + driver.CONFIGS[g.cfg] + ["-D" + d for d in rp.get("defs", [])] + \
        ["-I" + os.path.join(driver.REPO, "src"), "-I" + os.path.join(VERIF, "spec"), "-I" + os.path.join(VERIF, "include"),
         "-I" + os.path.join(VERIF, "replay")] + srcs + ["-o", exe]
    p = subprocess.run(cc, stdout=subprocess.PIPE, stderr=subprocess.STDOUT)
    if p.returncode != 0:
        return None, "native replay program did not compile:\n" + p.stdout.decode(errors="replace")[-3000:]
    seed = os.environ.get("VERIF_SEED", "0") or "0"
    cmd = [exe, inp, seed] + [str(x) for x in rp.get("args", [])]
    try:
        p = subprocess.run(cmd, stdout=subprocess.PIPE, stderr=subprocess.STDOUT, timeout=rp.get("timeout", 300))
        out = p.stdout.decode(errors="replace")
        rc = p.returncode
    except subprocess.TimeoutExpired:
        return None, "native replay timed out"
    txt = "$ %s\n$ %s\n[rc=%d]\n%s" % (" ".join(shlex.quote(c) for c in cc), " ".join(shlex.quote(c) for c in cmd), rc, out[-6000:])
    return (rc == 1 and "REPRODUCED" in out), txt


def write_replay(pid, res, fails):
    g = res.group
    os.makedirs(driver.REPLAYS, exist_ok=True)
    base = os.path.join(driver.REPLAYS, "%s-%s" % (pid, re.sub(r"[^A-Za-z0-9_.-]", "_", g.name)))
    first = fails[0]
    inputs = driver.trace_inputs(first.get("trace", []))
    reproduced, native_txt = native_replay(pid, g, first, inputs, base)
    doc = {
        "property": pid,
        "group": g.name,
        "configuration": g.cfg,
        "function_under_contract": g.enforce,
        "failed_obligations": [{"obligation": f["property"], "description": f["description"],
                                "status": f["status"],
                                "location": "%s:%s" % (f["location"].get("file", "?"), f["location"].get("line", "?"))}
                               for f in fails],
        "verifier_commands": res.cmds,
        "verifier_counterexample_inputs": [{"lhs": k, "value": v} for k, v in inputs],
        "native_replay": {"reproduced_on_real_code": reproduced, "log": native_txt},
        "how_to_rerun": "cd /verif && ./check.py %s --only %s ; ./check.py --replay %s" % (pid, g.name, base + ".json"),
    }
    with open(base + ".json", "w") as f:
        json.dump(doc, f, indent=1)
    return base + ".json", reproduced


def run_replay(path):
    doc = json.load(open(path))
    print("replay of %s group %s" % (doc["property"], doc["group"]))
    for f in doc["failed_obligations"]:
        print("  failed obligation: %s  %s  (%s)" % (f["obligation"], f["description"], f["location"]))
    print("  counterexample inputs from the verifier:")
    for kv in doc["verifier_counterexample_inputs"][:60]:
        print("    %s = %s" % (kv["lhs"], kv["value"]))
    nat = doc.get("native_replay", {})
    log = nat.get("log", "")
    cmds = [l[2:] for l in log.splitlines() if l.startswith("$ ")]
    rc = 0
    if len(cmds) >= 2:
        print("  re-running the native replay against /repo ...")
        if subprocess.call(cmds[0], shell=True) != 0:
            print("  native replay program did not compile")
            return 2
        rc = subprocess.call(cmds[1], shell=True)
        print("  native replay exit status %d (%s)" % (rc, "failure reproduced on the real code" if rc == 1 else "not reproduced"))
    else:
        print("  no native replay available: " + log[:300])
        print("  re-run the verifier: " + doc["how_to_rerun"])
    return 1 if rc == 1 else 0


def conclude(pid, tier, seed, mod, results, wall, write_evidence=True, extra=None):
    known = load_known()
    errors = [r for r in results if r.status == "error"]
    fails = [r for r in results if r.status == "fail"]
    violations = []
    known_hits = []
    for r in fails:
        new = []
        for f in r.failed:
            k = match_known(pid, r.group, f, known)
            if k and not getattr(r, "reach", False):
                known_hits.append((k, r, f))
            else:
                new.append(f)
        if new:
            violations.append((r, new))
    for k, r, f in known_hits:
        print("KNOWN-FINDING: property=%s %s [group %s, obligation: %s]" % (pid, k.get("what", ""), r.group.name, f["description"]))
    rc = 0
    for r, new in violations:
        if getattr(r, "reach", False):
            errors.append(r)
            r.error = "vacuity pass: " + "; ".join(f["description"] for f in new)
            continue
        path, reproduced = write_replay(pid, r, new)
        for f in new[:6]:
            print("  failed obligation %s: %s (%s:%s)" % (f["property"], f["description"],
                  f["location"].get("file", "?"), f["location"].get("line", "?")))
        print("VIOLATION property=%s replay=%s%s" % (pid, path, "" if reproduced else " no-failing-input-found"))
        rc = 1
    extra_viol, extra_cov = extra if extra else ([], {})
    for n, v in enumerate(extra_viol):
        k = None
        for kk in known.get("findings", []):
            if kk.get("property") == pid and kk.get("obligation") and kk["obligation"] in v["what"]:
                k = kk
        if k:
            print("KNOWN-FINDING: property=%s %s" % (pid, k.get("what", v["what"])))
            continue
        os.makedirs(driver.REPLAYS, exist_ok=True)
        path = os.path.join(driver.REPLAYS, "%s-%s-%d.json" % (pid, re.sub(r"[^A-Za-z0-9_.-]", "_", v.get("group", "custom")), n))
        with open(path, "w") as f:
            json.dump({"property": pid, "group": v.get("group"), "failed_obligations": [{"obligation": v.get("group"), "description": v["what"], "status": "FAILURE", "location": ""}],
                       "verifier_counterexample_inputs": [], "native_replay": {"reproduced_on_real_code": bool(v.get("reproduced")), "log": v.get("log", v["what"])},
                       "how_to_rerun": "cd /verif && ./check.py %s" % pid}, f, indent=1)
        print("  " + v["what"])
        print("VIOLATION property=%s replay=%s%s" % (pid, path, "" if v.get("reproduced") else " no-failing-input-found"))
        rc = 1
    if errors and rc == 0:
        for r in errors:
            print("UNDECIDED group %s: %s" % (r.group.name, r.error.strip()[-1200:]))
        rc = 2
    if write_evidence:
        evidence(pid, tier, seed, mod, results, wall, len([v for v in violations if not getattr(v[0], "reach", False)]) + len(extra_viol), known_hits, extra_cov)
    proofs = [r for r in results if r.status == "pass" and r.group.kind == "proof" and not getattr(r, "reach", False)]
    print("%s %s: %d groups, %d obligations discharged, %d violation(s), %d undecided, %.0fs" %
          (pid, tier, len(results), sum(r.discharged for r in proofs), len(violations), len(errors), wall))
    return rc


def evidence(pid, tier, seed, mod, results, wall, nviol, known_hits, extra_cov=None):
    os.makedirs(driver.EVIDENCE, exist_ok=True)
    main = [r for r in results if not getattr(r, "reach", False)]
    proof = [r for r in main if r.group.kind == "proof"]
    bounded = [r for r in main if r.group.kind != "proof"]
    reach = [r for r in results if getattr(r, "reach", False)]
    obligations = sum(r.obligations for r in proof)
    discharged = sum(r.discharged for r in proof)
    functions = sorted(set(f for r in proof for f in r.group.functions))
    samples = []
    for r in proof:
        for s in r.samples[:1]:
            samples.append(dict(s, group=r.group.name))
    samples = samples[:12] or [{"note": "no obligations were discharged in this run"}]
    files = set()
    for r in main:
        files.add(os.path.join(VERIF, r.group.harness))
        for c in r.group.contracts:
            files.add(os.path.join(VERIF, c))
    files.update(glob.glob(os.path.join(VERIF, "include", "*.h")))
    assumes = scan_assumes(sorted(files))
    assumed_contracts = sorted(set(a for r in main for a in r.group.assumed))
    assumptions = list(getattr(mod, "ASSUMPTIONS", []))
    for a in assumed_contracts:
        assumptions.append("assumed (used in replaced form, enforced by no group of this property): " + a)
    for r in bounded:
        assumptions.append("bounded stand-in, not counted as proved: group %s, bound: %s" % (r.group.name, r.group.bound))
    uw = sorted(set("%s: %s" % (r.group.name, ",".join(r.group.unwind_pre + r.group.unwindset + ([str(r.group.unwind)] if r.group.unwind is not None else [])))
                    for r in proof if r.group.unwind_pre or r.group.unwindset or r.group.unwind is not None))
    if uw:
        assumptions.append("constant-trip-count loops fully unwound with unwinding assertions (complete): " + "; ".join(uw)[:1500])
    assumptions.append("__CPROVER_assume statements in harnesses/contracts/ghost headers used by this run (input preconditions and discharged lemma uses): %d; see coverage.assume_sites" % len(assumes))
    for k, r, f in known_hits:
        assumptions.append("known finding (not discharged): %s" % k.get("what", ""))
    doc = {
        "property_id": pid,
        "tier": tier,
        "seed": seed,
        "level": getattr(mod, "LEVEL", "proof"),
        "coverage": {
            "obligations": obligations,
            "discharged": discharged,
            "checker_cmd": (proof[0].cmds[-1] if proof and proof[0].cmds else "cbmc --sat-solver cadical <flags> b.gb") +
                           "   (after: goto-cc -DASCON_SUITE_VERIF ...; goto-instrument --dfcc <harness> --enforce-contract <f> --replace-call-with-contract <g> --apply-loop-contracts)",
            "trusted_base": TRUSTED_BASE + list(getattr(mod, "TRUSTED", [])) +
                            (["assembly lifters tools/lift_*.py: the instruction-semantics tables stated at the top of each lifter, the calling "
                              "conventions (argument registers / stack slots, callee-saved sets, narrow arguments as each ABI defines them), "
                              "and the assembler translating the text it is given; lifted: " +
                              ", ".join(sorted(set(r.group.lift[0] for r in main if getattr(r.group, "lift", None))))]
                             if any(getattr(r.group, "lift", None) for r in main) else []),
            "explanation": getattr(mod, "EXPLANATION", ""),
            "functions_under_contract": functions,
            "backend": "CBMC 6.11.0 SAT (CaDiCaL)",
            "groups": [{"name": r.group.name, "kind": r.group.kind, "config": r.group.cfg, "status": r.status,
                        "enforced": r.group.enforce, "replaced": r.group.replace,
                        "obligations": r.obligations, "discharged": r.discharged, "undecided": r.unknown,
                        "classes": r.classes, "wall_s": round(r.wall, 1), "solver_s": round(r.solver_s, 1), "solver_peak_rss_gb": getattr(r, "mem_gb", 0.0), "mem_key": driver.mem_key(r.group),
                        "error": r.error[-300:] if r.error else ""} for r in sorted(main, key=lambda x: x.group.name)],
            "bounded": [{"name": r.group.name, "bound": r.group.bound, "status": r.status,
                         "obligations": r.obligations, "discharged": r.discharged} for r in bounded],
            "vacuity_pass": [{"name": r.group.name, "reach_points_confirmed_reachable": r.discharged, "status": r.status} for r in reach],
            "samples": samples,
            "assume_sites": assumes[:80],
            "solver_time_s": round(sum(r.solver_s for r in main), 1),
        },
        "assumptions": assumptions,
        "wall_s": round(wall, 1),
        "violations": nviol,
    }
    if extra_cov:
        doc["coverage"].update(extra_cov)
    if doc["level"] == "proof" and obligations == 0:
        doc["coverage"]["evaluations"] = max(1, len(main))
        doc["coverage"]["distinct_nontrivial"] = 0
    with open(os.path.join(driver.EVIDENCE, pid + ".json"), "w") as f:
        json.dump(doc, f, indent=1)
