/* Ghost cut points of the LIFTED AArch64 assembly permutation (C08/C18): 64-bit words (layout of ascon-sliced64.c);
 * at every round label the state is in x2, x3, ~x4, x5, x6.  Obligations as in include/ghost_asm.h. */
#ifndef GHOST_ASM_ARM64_H
#define GHOST_ASM_ARM64_H
#include <stdint.h>
uint64_t nondet_u64(void);
#define verif_asm_nondet_u64 nondet_u64
#define VERIF_ASM_ENTRY_ascon_permute int verif_asm_entered = 0; /* local ghost: first cut not yet reached */
#define VERIF_ASM_EXIT_ascon_permute
#define VERIF_ASM_ENTRY_ascon_backend_free
#define VERIF_ASM_EXIT_ascon_backend_free
#define VERIF_ASM_CUT_ascon_backend_free(n, D)
#define VA64_ROUNDCUT(j, T) \
    if (!verif_asm_entered) { \
        verif_asm_entered = 1; \
        __CPROVER_assert((j) == (first_round < 12 ? first_round : 12), "dispatch: execution enters the unrolled rounds at round first_round"); \
    } \
    __CPROVER_assert(x2 == (T).x[0] && x3 == (T).x[1] && (uint64_t)~x4 == (T).x[2] && x5 == (T).x[3] && x6 == (T).x[4], \
        "AArch64 asm cut: registers hold ref_round of the previous cut (one assembly round == one reference round)"); \
    x2 = (T).x[0]; x3 = (T).x[1]; x4 = ~(T).x[2]; x5 = (T).x[3]; x6 = (T).x[4];
#define VERIF_ASM_CUT_ascon_permute(n, D) VA64_CUT_##n
#define VA64_CUT_0 VA64_ROUNDCUT(0, verif_T0)
#define VA64_CUT_1 VA64_ROUNDCUT(1, verif_T1)
#define VA64_CUT_2 VA64_ROUNDCUT(2, verif_T2)
#define VA64_CUT_3 VA64_ROUNDCUT(3, verif_T3)
#define VA64_CUT_4 VA64_ROUNDCUT(4, verif_T4)
#define VA64_CUT_5 VA64_ROUNDCUT(5, verif_T5)
#define VA64_CUT_6 VA64_ROUNDCUT(6, verif_T6)
#define VA64_CUT_7 VA64_ROUNDCUT(7, verif_T7)
#define VA64_CUT_8 VA64_ROUNDCUT(8, verif_T8)
#define VA64_CUT_9 VA64_ROUNDCUT(9, verif_T9)
#define VA64_CUT_10 VA64_ROUNDCUT(10, verif_T10)
#define VA64_CUT_11 VA64_ROUNDCUT(11, verif_T11)
#define VA64_CUT_12 VA64_ROUNDCUT(12, verif_T12)
#endif
