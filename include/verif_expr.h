/* Pure (side-effect free) expression macros usable inside CBMC contracts,
 * loop invariants and __CPROVER_old(). No statement expressions, no calls. */
#ifndef VERIF_EXPR_H
#define VERIF_EXPR_H

#include <stdint.h>
#include <stddef.h>

#define VROR64(v, n) ((uint64_t)(((uint64_t)(v) >> (n)) | ((uint64_t)(v) << (64 - (n)))))
#define VROR32(v, n) ((uint32_t)(((uint32_t)(v) >> (n)) | ((uint32_t)(v) << (32 - (n)))))

/* big-endian loads from a byte pointer */
#define VBE64(p) ( \
    ((uint64_t)((const uint8_t *)(p))[0] << 56) | ((uint64_t)((const uint8_t *)(p))[1] << 48) | \
    ((uint64_t)((const uint8_t *)(p))[2] << 40) | ((uint64_t)((const uint8_t *)(p))[3] << 32) | \
    ((uint64_t)((const uint8_t *)(p))[4] << 24) | ((uint64_t)((const uint8_t *)(p))[5] << 16) | \
    ((uint64_t)((const uint8_t *)(p))[6] << 8)  | ((uint64_t)((const uint8_t *)(p))[7]))
#define VBE32(p) ( \
    ((uint32_t)((const uint8_t *)(p))[0] << 24) | ((uint32_t)((const uint8_t *)(p))[1] << 16) | \
    ((uint32_t)((const uint8_t *)(p))[2] << 8)  | ((uint32_t)((const uint8_t *)(p))[3]))

/* the same loads of the values the bytes had on function entry: CBMC's
 * __CPROVER_old() accepts only simple lvalue expressions (no |, no ?:) */
#define VO(e) __CPROVER_old(e)
#define VBE64_OLD(p) ( \
    ((uint64_t)VO(((const uint8_t *)(p))[0]) << 56) | ((uint64_t)VO(((const uint8_t *)(p))[1]) << 48) | \
    ((uint64_t)VO(((const uint8_t *)(p))[2]) << 40) | ((uint64_t)VO(((const uint8_t *)(p))[3]) << 32) | \
    ((uint64_t)VO(((const uint8_t *)(p))[4]) << 24) | ((uint64_t)VO(((const uint8_t *)(p))[5]) << 16) | \
    ((uint64_t)VO(((const uint8_t *)(p))[6]) << 8)  | ((uint64_t)VO(((const uint8_t *)(p))[7])))

/* spread the 32 bits of x to the even bit positions of a 64-bit word */
#define VSPREAD_1(x) ((((uint64_t)(uint32_t)(x)) | (((uint64_t)(uint32_t)(x)) << 16)) & 0x0000FFFF0000FFFFULL)
#define VSPREAD_2(x) ((VSPREAD_1(x) | (VSPREAD_1(x) << 8)) & 0x00FF00FF00FF00FFULL)
#define VSPREAD_3(x) ((VSPREAD_2(x) | (VSPREAD_2(x) << 4)) & 0x0F0F0F0F0F0F0F0FULL)
#define VSPREAD_4(x) ((VSPREAD_3(x) | (VSPREAD_3(x) << 2)) & 0x3333333333333333ULL)
#define VSPREAD(x)   ((VSPREAD_4(x) | (VSPREAD_4(x) << 1)) & 0x5555555555555555ULL)
/* 64-bit word whose even bits are e and odd bits are o */
#define VINTERLEAVE(e, o) ((uint64_t)(VSPREAD(e) | (VSPREAD(o) << 1)))

/* byte i (0 = most significant) of a 64-bit word */
#define VBYTE64(w, i) ((uint8_t)((uint64_t)(w) >> (56 - 8 * (i))))

#endif
