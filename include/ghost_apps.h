/* Loop contracts for apps/asconcrypt (C19). */
#ifndef GHOST_APPS_H
#define GHOST_APPS_H
#if defined(VERIF_LC_safe_file_read)
/* transfer loop over short reads: result bytes were delivered contiguously, len bytes are still wanted */
#define ASCON_VERIF_LOOP_safe_file_read \
    __CPROVER_assigns(temp, result, d, len, verif_errno, verif_io_calls, verif_hard_fail, __CPROVER_object_whole(data)) \
    __CPROVER_loop_invariant(verif_hard_fail == 0) \
    __CPROVER_loop_invariant(result >= 0 && len <= __CPROVER_loop_entry(len) && (size_t)result + len == __CPROVER_loop_entry(len)) \
    __CPROVER_loop_invariant(__CPROVER_same_object(d, __CPROVER_loop_entry(d)) && \
        __CPROVER_POINTER_OFFSET(d) == __CPROVER_POINTER_OFFSET(__CPROVER_loop_entry(d)) + result)
#else
#define ASCON_VERIF_LOOP_safe_file_read
#endif
#if defined(VERIF_LC_safe_file_write)
#define ASCON_VERIF_LOOP_safe_file_write \
    __CPROVER_assigns(temp, result, d, len, verif_errno, verif_io_calls, verif_hard_fail) \
    __CPROVER_loop_invariant(verif_hard_fail == 0) \
    __CPROVER_loop_invariant(result >= 0 && len <= __CPROVER_loop_entry(len) && (size_t)result + len == __CPROVER_loop_entry(len)) \
    __CPROVER_loop_invariant(__CPROVER_same_object(d, __CPROVER_loop_entry(d)) && \
        __CPROVER_POINTER_OFFSET(d) == __CPROVER_POINTER_OFFSET(__CPROVER_loop_entry(d)) + result)
#else
#define ASCON_VERIF_LOOP_safe_file_write
#endif
#if defined(VERIF_LC_encrypt_file)
/* chunk loop: the tool's status flag is 1 only while no read, write or size check has failed */
#define ASCON_VERIF_LOOP_encrypt_file \
    __CPROVER_assigns(len, size, exit_val, state, __CPROVER_object_whole(data), verif_read_failed, verif_write_failed, verif_io_calls) \
    __CPROVER_loop_invariant((exit_val == 0 || exit_val == 1) && (exit_val == 0 || (!verif_read_failed && !verif_write_failed)))
#else
#define ASCON_VERIF_LOOP_encrypt_file
#endif
#if defined(VERIF_LC_decrypt_file)
#define ASCON_VERIF_LOOP_decrypt_file \
    __CPROVER_assigns(len, size, exit_val, state, __CPROVER_object_whole(data), verif_read_failed, verif_write_failed, verif_io_calls) \
    __CPROVER_loop_invariant((exit_val == 0 || exit_val == 1) && (exit_val == 0 || (!verif_read_failed && !verif_write_failed)))
#else
#define ASCON_VERIF_LOOP_decrypt_file
#endif
#if defined(VERIF_LC_safe_file_read) || defined(VERIF_LC_safe_file_write) || defined(VERIF_LC_encrypt_file) || defined(VERIF_LC_decrypt_file)
extern unsigned verif_io_calls;
extern int verif_read_failed, verif_write_failed, verif_errno, verif_hard_fail;
#endif
#endif
