/* Loop contracts and per-iteration spec-step assertions for
 * src/aead/ascon-aead-common.c (C01, C02, C07, C12). */
#ifndef GHOST_AEAD_H
#define GHOST_AEAD_H

#if defined(VERIF_LC_aead_absorb_8) || defined(VERIF_LC_aead_absorb_16)
#include "verif_canon.h"
#include "spec_sponge.h"
extern const unsigned char *verif_d0;   /* the data argument on entry */
extern size_t verif_len0;               /* the len argument on entry  */

/* structural facts only: how far data has advanced, what is left, frame */
#define VERIF_ABSORB_LOOP(R) \
    __CPROVER_assigns(data, len, __CPROVER_object_whole(state)) \
    __CPROVER_loop_invariant(__CPROVER_same_object(data, __CPROVER_loop_entry(data))) \
    __CPROVER_loop_invariant(len <= __CPROVER_loop_entry(len)) \
    __CPROVER_loop_invariant(__CPROVER_POINTER_OFFSET(data) == \
        __CPROVER_POINTER_OFFSET(__CPROVER_loop_entry(data)) + (__CPROVER_loop_entry(len) - len)) \
    __CPROVER_loop_invariant((__CPROVER_loop_entry(len) - len) % (R) == 0) \
    __CPROVER_decreases(len)
#define VERIF_ABSORB_TOP \
    spec_state verif_pre = verif_canon(state); \
    const unsigned char *verif_dp = data; \
    size_t verif_lp = len;
/* an arbitrary iteration: the block at the current position is absorbed at
 * rate offset 0, then p^b; the position advances by exactly one block */
#define VERIF_ABSORB_BOTTOM(R) \
    __CPROVER_assert(spec_eq(verif_canon(state), spec_absorb_run(verif_pre, 0, verif_dp, (R), (R), first_round)), \
        "absorb: one full-block iteration equals rate-many spec byte steps (xor block at 0, then permute)"); \
    __CPROVER_assert(data == verif_dp + (R) && len == verif_lp - (R), "absorb: iteration consumes exactly one block");
#define VERIF_ABSORB_TAIL(R) \
    spec_state verif_tpre = verif_canon(state); \
    __CPROVER_assert(len < (R) && len == verif_len0 % (R), "absorb: tail length is len mod rate"); \
    __CPROVER_assert(data == verif_d0 + (verif_len0 - len), "absorb: tail starts where the full blocks ended");
#define VERIF_ABSORB_END(R) \
    __CPROVER_assert(spec_eq(verif_canon(state), \
        last_permute ? spec_P(spec_pad(spec_absorb_run(verif_tpre, 0, data, (unsigned)len, (R), first_round), (unsigned)len), first_round) \
                     : spec_pad(spec_absorb_run(verif_tpre, 0, data, (unsigned)len, (R), first_round), (unsigned)len)), \
        "absorb: partial block, 10* padding and optional final permutation equal the spec");
#endif

#if defined(VERIF_LC_aead_absorb_8)
#define ASCON_VERIF_LOOP_aead_absorb_8 VERIF_ABSORB_LOOP(8)
#define ASCON_VERIF_GHOST_aead_absorb_8_top VERIF_ABSORB_TOP
#define ASCON_VERIF_GHOST_aead_absorb_8_bottom VERIF_ABSORB_BOTTOM(8)
#define ASCON_VERIF_GHOST_aead_absorb_8_tail VERIF_ABSORB_TAIL(8)
#define ASCON_VERIF_GHOST_aead_absorb_8_end VERIF_ABSORB_END(8)
#else
#define ASCON_VERIF_LOOP_aead_absorb_8
#define ASCON_VERIF_GHOST_aead_absorb_8_top
#define ASCON_VERIF_GHOST_aead_absorb_8_bottom
#define ASCON_VERIF_GHOST_aead_absorb_8_tail
#define ASCON_VERIF_GHOST_aead_absorb_8_end
#endif

#if defined(VERIF_LC_aead_absorb_16)
#define ASCON_VERIF_LOOP_aead_absorb_16 VERIF_ABSORB_LOOP(16)
#define ASCON_VERIF_GHOST_aead_absorb_16_top VERIF_ABSORB_TOP
#define ASCON_VERIF_GHOST_aead_absorb_16_bottom VERIF_ABSORB_BOTTOM(16)
#define ASCON_VERIF_GHOST_aead_absorb_16_tail VERIF_ABSORB_TAIL(16)
#define ASCON_VERIF_GHOST_aead_absorb_16_end VERIF_ABSORB_END(16)
#else
#define ASCON_VERIF_LOOP_aead_absorb_16
#define ASCON_VERIF_GHOST_aead_absorb_16_top
#define ASCON_VERIF_GHOST_aead_absorb_16_bottom
#define ASCON_VERIF_GHOST_aead_absorb_16_tail
#define ASCON_VERIF_GHOST_aead_absorb_16_end
#endif

#endif
