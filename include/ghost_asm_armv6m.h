/* Ghost cut points of the LIFTED ARMv6-M (Thumb-1) assembly permutation (C08/C18): bit-sliced 32-bit halves; at every
 * round label the even halves are in r3..r7 and the odd halves in the high registers r8..r12.  Label 0 in text order is
 * the trampoline for first_round > 11, labels 1..12 are the round entries, label 13 is the exit.
 * Obligations as in include/ghost_asm.h. */
#ifndef GHOST_ASM_ARMV6M_H
#define GHOST_ASM_ARMV6M_H
#include <stdint.h>
uint32_t nondet_u32(void);
#define verif_asm_nondet_u32 nondet_u32
#define VERIF_ASM_ENTRY_ascon_permute int verif_asm_entered = 0; /* local ghost: first cut not yet reached */
#define VERIF_ASM_EXIT_ascon_permute
#if defined(VERIF_ARM32_X2INV)
#define VA6M_X2(v) ((uint32_t)~(v))
#else
#define VA6M_X2(v) ((uint32_t)(v))
#endif
#define VA6M_ROUNDCUT(j, T) \
    if (!verif_asm_entered) { \
        verif_asm_entered = 1; \
        __CPROVER_assert((j) == (first_round < 12 ? first_round : 12), "dispatch: execution enters the unrolled rounds at round first_round (jump table)"); \
    } \
    __CPROVER_assert(VINTERLEAVE(r3, r8) == (T).x[0] && VINTERLEAVE(r4, r9) == (T).x[1] && VINTERLEAVE(VA6M_X2(r5), VA6M_X2(r10)) == (T).x[2] && \
                     VINTERLEAVE(r6, r11) == (T).x[3] && VINTERLEAVE(r7, r12) == (T).x[4], \
        "ARMv6-M asm cut: registers hold ref_round of the previous cut (one assembly round == one reference round)"); \
    r3 = verif_even_bits((T).x[0]); r8 = verif_even_bits((T).x[0] >> 1); r4 = verif_even_bits((T).x[1]); r9 = verif_even_bits((T).x[1] >> 1); \
    r5 = VA6M_X2(verif_even_bits((T).x[2])); r10 = VA6M_X2(verif_even_bits((T).x[2] >> 1)); r6 = verif_even_bits((T).x[3]); r11 = verif_even_bits((T).x[3] >> 1); \
    r7 = verif_even_bits((T).x[4]); r12 = verif_even_bits((T).x[4] >> 1);
#define VERIF_ASM_CUT_ascon_permute(n, D) VA6M_CUT_##n
#define VA6M_CUT_0
#define VA6M_CUT_1 VA6M_ROUNDCUT(0, verif_T0)
#define VA6M_CUT_2 VA6M_ROUNDCUT(1, verif_T1)
#define VA6M_CUT_3 VA6M_ROUNDCUT(2, verif_T2)
#define VA6M_CUT_4 VA6M_ROUNDCUT(3, verif_T3)
#define VA6M_CUT_5 VA6M_ROUNDCUT(4, verif_T4)
#define VA6M_CUT_6 VA6M_ROUNDCUT(5, verif_T5)
#define VA6M_CUT_7 VA6M_ROUNDCUT(6, verif_T6)
#define VA6M_CUT_8 VA6M_ROUNDCUT(7, verif_T7)
#define VA6M_CUT_9 VA6M_ROUNDCUT(8, verif_T8)
#define VA6M_CUT_10 VA6M_ROUNDCUT(9, verif_T9)
#define VA6M_CUT_11 VA6M_ROUNDCUT(10, verif_T10)
#define VA6M_CUT_12 VA6M_ROUNDCUT(11, verif_T11)
#define VA6M_CUT_13 VA6M_ROUNDCUT(12, verif_T12)
#endif
