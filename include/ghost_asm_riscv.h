/* Ghost cut points of the LIFTED RISC-V assembly permutations (C08/C18): RV64I (64-bit words, layout of
 * ascon-sliced64.c), RV32I and RV32E (bit-sliced 32-bit halves, layout of ascon-sliced32.c).  tools/lift_riscv.py puts
 * VERIF_ASM_CUT_ascon_permute(n, D) after the n-th label (text order: round entries 0..11, then the exit).
 * Register allocation at the cuts (word 2 is kept inverted):
 *   RV64I: a2, a3, ~a4, a5, a6
 *   RV32I: even halves a2, a3, ~a4, a5, a6; odd halves a7, t0, ~t4, t5, t6
 *   RV32E: even halves a2, a3, ~a4, a5, t0; odd halves stay in the state memory W[1], W[3], ~W[5], W[7], W[9]
 * Obligations as in include/ghost_asm.h: one assembly round == ref_round, then replacement by the trajectory value;
 * the first cut reached is the one of first_round. */
#ifndef GHOST_ASM_RISCV_H
#define GHOST_ASM_RISCV_H
#include <stdint.h>
uint64_t nondet_u64(void);
#define verif_asm_nondet_u64 nondet_u64
#define VERIF_ASM_ENTRY_ascon_permute int verif_asm_entered = 0; /* local ghost: first cut not yet reached */
#define VERIF_ASM_EXIT_ascon_permute
#define VERIF_ASM_ENTRY_ascon_backend_free
#define VERIF_ASM_EXIT_ascon_backend_free
#define VERIF_ASM_CUT_ascon_backend_free(n, D)
#define VRV_MEM(k) (((uint32_t *)state)[k])
#if VERIF_RISCV == 64
#define VRV_EQ(T) (a2 == (T).x[0] && a3 == (T).x[1] && (uint64_t)~a4 == (T).x[2] && a5 == (T).x[3] && a6 == (T).x[4])
#define VRV_SET(T) a2 = (T).x[0]; a3 = (T).x[1]; a4 = ~(T).x[2]; a5 = (T).x[3]; a6 = (T).x[4];
#elif VERIF_RISCV == 32
#define VRV_EQ(T) (VINTERLEAVE(a2, a7) == (T).x[0] && VINTERLEAVE(a3, t0) == (T).x[1] && VINTERLEAVE((uint32_t)~a4, (uint32_t)~t4) == (T).x[2] && \
                   VINTERLEAVE(a5, t5) == (T).x[3] && VINTERLEAVE(a6, t6) == (T).x[4])
#define VRV_SET(T) a2 = verif_even_bits((T).x[0]); a7 = verif_even_bits((T).x[0] >> 1); a3 = verif_even_bits((T).x[1]); t0 = verif_even_bits((T).x[1] >> 1); \
                   a4 = ~verif_even_bits((T).x[2]); t4 = ~verif_even_bits((T).x[2] >> 1); a5 = verif_even_bits((T).x[3]); t5 = verif_even_bits((T).x[3] >> 1); \
                   a6 = verif_even_bits((T).x[4]); t6 = verif_even_bits((T).x[4] >> 1);
#else /* RV32E */
#define VRV_EQ(T) (VINTERLEAVE(a2, VRV_MEM(1)) == (T).x[0] && VINTERLEAVE(a3, VRV_MEM(3)) == (T).x[1] && VINTERLEAVE((uint32_t)~a4, (uint32_t)~VRV_MEM(5)) == (T).x[2] && \
                   VINTERLEAVE(a5, VRV_MEM(7)) == (T).x[3] && VINTERLEAVE(t0, VRV_MEM(9)) == (T).x[4])
#define VRV_SET(T) a2 = verif_even_bits((T).x[0]); VRV_MEM(1) = verif_even_bits((T).x[0] >> 1); a3 = verif_even_bits((T).x[1]); VRV_MEM(3) = verif_even_bits((T).x[1] >> 1); \
                   a4 = ~verif_even_bits((T).x[2]); VRV_MEM(5) = ~verif_even_bits((T).x[2] >> 1); a5 = verif_even_bits((T).x[3]); VRV_MEM(7) = verif_even_bits((T).x[3] >> 1); \
                   t0 = verif_even_bits((T).x[4]); VRV_MEM(9) = verif_even_bits((T).x[4] >> 1);
#endif
#define VRV_ROUNDCUT(j, T) \
    if (!verif_asm_entered) { \
        verif_asm_entered = 1; \
        __CPROVER_assert((j) == (first_round < 12 ? first_round : 12), "dispatch: execution enters the unrolled rounds at round first_round"); \
    } \
    __CPROVER_assert(VRV_EQ(T), "RISC-V asm cut: registers (and memory halves) hold ref_round of the previous cut (one assembly round == one reference round)"); \
    VRV_SET(T)
#define VERIF_ASM_CUT_ascon_permute(n, D) VRV_CUT_##n
#define VRV_CUT_0 VRV_ROUNDCUT(0, verif_T0)
#define VRV_CUT_1 VRV_ROUNDCUT(1, verif_T1)
#define VRV_CUT_2 VRV_ROUNDCUT(2, verif_T2)
#define VRV_CUT_3 VRV_ROUNDCUT(3, verif_T3)
#define VRV_CUT_4 VRV_ROUNDCUT(4, verif_T4)
#define VRV_CUT_5 VRV_ROUNDCUT(5, verif_T5)
#define VRV_CUT_6 VRV_ROUNDCUT(6, verif_T6)
#define VRV_CUT_7 VRV_ROUNDCUT(7, verif_T7)
#define VRV_CUT_8 VRV_ROUNDCUT(8, verif_T8)
#define VRV_CUT_9 VRV_ROUNDCUT(9, verif_T9)
#define VRV_CUT_10 VRV_ROUNDCUT(10, verif_T10)
#define VRV_CUT_11 VRV_ROUNDCUT(11, verif_T11)
#define VRV_CUT_12 VRV_ROUNDCUT(12, verif_T12)
#endif
