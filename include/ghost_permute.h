/* Loop contracts and ghost statements of the C permutation backends (C08).
 *
 * The 12-round equivalence is never put into one formula (DESIGN 2.4).  It is
 * cut at the loop by a lemma / use pair generated from ONE macro at ONE
 * program point (the bottom of the loop body):
 *
 *   stage A (-DVERIF_STAGE_A, "round lemma"): the loop is abstracted by an
 *     invariant with structural facts only, so the body runs from an
 *     ARBITRARY state and round number k = first_round.  The harness makes
 *     T[kk], T[kk+1] = ref_round(T[kk], kk) for an arbitrary kk.  Asserted:
 *        (k == kk && canon(x before body) == T[k])  ==>  canon(x after) == T[k+1]
 *     i.e. one implementation round == one reference round, for every round
 *     number and every state.
 *   stage B (-DVERIF_STAGE_B, "use"): the harness builds the whole reference
 *     trajectory; the same formula is ASSUMED at the same point for the
 *     rounds of the trajectory (it is an instance of what stage A proved),
 *     the invariant canon(x) == T[first_round] is proved inductive, and the
 *     function contract canon(state') == T[12] is enforced.
 *
 * The check passes only if both stages pass; the assumption in stage B is
 * therefore discharged, not trusted. */
#ifndef GHOST_PERMUTE_H
#define GHOST_PERMUTE_H

extern unsigned verif_kk;    /* stage A: the round the lemma is instantiated for */
extern unsigned verif_r0;    /* stage B: first round of the trajectory           */

extern spec_state verif_A_pre, verif_A_post;  /* stage A: post = ref_round(pre, kk) */
#define VERIF_S_EQ(s, a0, a1, a2, a3, a4) \
    ((a0) == (s).x[0] && (a1) == (s).x[1] && (a2) == (s).x[2] && (a3) == (s).x[3] && (a4) == (s).x[4])
/* the trajectory is 13 separate ghost objects (a symbolic index into an array
 * of structs costs the SAT back end two orders of magnitude here) */
#define VERIF_T_EQ(k, a0, a1, a2, a3, a4) ( \
    (k) == 0 ? VERIF_S_EQ(verif_T0, a0, a1, a2, a3, a4) : (k) == 1 ? VERIF_S_EQ(verif_T1, a0, a1, a2, a3, a4) : \
    (k) == 2 ? VERIF_S_EQ(verif_T2, a0, a1, a2, a3, a4) : (k) == 3 ? VERIF_S_EQ(verif_T3, a0, a1, a2, a3, a4) : \
    (k) == 4 ? VERIF_S_EQ(verif_T4, a0, a1, a2, a3, a4) : (k) == 5 ? VERIF_S_EQ(verif_T5, a0, a1, a2, a3, a4) : \
    (k) == 6 ? VERIF_S_EQ(verif_T6, a0, a1, a2, a3, a4) : (k) == 7 ? VERIF_S_EQ(verif_T7, a0, a1, a2, a3, a4) : \
    (k) == 8 ? VERIF_S_EQ(verif_T8, a0, a1, a2, a3, a4) : (k) == 9 ? VERIF_S_EQ(verif_T9, a0, a1, a2, a3, a4) : \
    (k) == 10 ? VERIF_S_EQ(verif_T10, a0, a1, a2, a3, a4) : (k) == 11 ? VERIF_S_EQ(verif_T11, a0, a1, a2, a3, a4) : \
    VERIF_S_EQ(verif_T12, a0, a1, a2, a3, a4))

/* ---- ascon-c64.c: ascon_permute (sliced64 and direct-xor variants) ---- */
#if defined(VERIF_LC_permute_c64)
#define VERIF_RC64(k) (RC[k] == (uint64_t)~(uint64_t)((((uint64_t)0x0F - (k)) << 4) | (k)))
#define VERIF_C64_STRUCT \
    __CPROVER_assigns(first_round, x0, x1, x2, x3, x4, t0, t1, t2, t3, t4) \
    __CPROVER_loop_invariant(VERIF_RC64(0) && VERIF_RC64(1) && VERIF_RC64(2) && VERIF_RC64(3) && \
                             VERIF_RC64(4) && VERIF_RC64(5) && VERIF_RC64(6) && VERIF_RC64(7) && \
                             VERIF_RC64(8) && VERIF_RC64(9) && VERIF_RC64(10) && VERIF_RC64(11)) \
    __CPROVER_loop_invariant(first_round >= __CPROVER_loop_entry(first_round)) \
    __CPROVER_loop_invariant(first_round <= 12 || first_round == __CPROVER_loop_entry(first_round))
#define ASCON_VERIF_GHOST_permute_c64_top \
    uint64_t verif_g0 = x0, verif_g1 = x1, verif_g2 = ~x2, verif_g3 = x3, verif_g4 = x4; \
    uint8_t verif_gk = first_round;
#define VERIF_C64_LEMMA \
    (!VERIF_T_EQ(verif_gk, verif_g0, verif_g1, verif_g2, verif_g3, verif_g4) || \
     VERIF_T_EQ(verif_gk + 1, x0, x1, (uint64_t)~x2, x3, x4))
#if defined(VERIF_STAGE_A)
#define ASCON_VERIF_LOOP_permute_c64 VERIF_C64_STRUCT \
    __CPROVER_decreases(12 - (int)VERIF_IDX(first_round))
#define ASCON_VERIF_GHOST_permute_c64_bottom \
    __CPROVER_assert(verif_gk != verif_kk || \
        !VERIF_S_EQ(verif_A_pre, verif_g0, verif_g1, verif_g2, verif_g3, verif_g4) || \
        VERIF_S_EQ(verif_A_post, x0, x1, (uint64_t)~x2, x3, x4), \
        "round lemma: one implementation round equals ref_round for every state and round number");
#else
#define ASCON_VERIF_LOOP_permute_c64 VERIF_C64_STRUCT \
    __CPROVER_loop_invariant(VERIF_T_EQ(VERIF_IDX(first_round), x0, x1, (uint64_t)~x2, x3, x4)) \
    __CPROVER_decreases(12 - (int)VERIF_IDX(first_round))
#define ASCON_VERIF_GHOST_permute_c64_bottom \
    __CPROVER_assume(verif_gk < verif_r0 || VERIF_C64_LEMMA);
#endif
#else
#define ASCON_VERIF_LOOP_permute_c64
#define ASCON_VERIF_GHOST_permute_c64_top
#define ASCON_VERIF_GHOST_permute_c64_bottom
#endif

/* ---- ascon-c32.c: ascon_permute (bit-sliced 32-bit) ---- */
#if defined(VERIF_LC_permute_c32)
#define VEVEN8(c) ((uint32_t)((((c) >> 0) & 1) | ((((c) >> 2) & 1) << 1) | ((((c) >> 4) & 1) << 2) | ((((c) >> 6) & 1) << 3)))
#define VERIF_RCB(k) ((uint32_t)((((uint32_t)0x0F - (k)) << 4) | (k)))
#define VERIF_RC32(k) (RC[2 * (k)] == (uint32_t)~VEVEN8(VERIF_RCB(k)) && RC[2 * (k) + 1] == (uint32_t)~VEVEN8(VERIF_RCB(k) >> 1))
#define VERIF_C32_STRUCT \
    __CPROVER_assigns(first_round, rc, t0, t1, t2, t3, t4, x0_e, x0_o, x1_e, x1_o, x2_e, x2_o, x3_e, x3_o, x4_e, x4_o) \
    __CPROVER_loop_invariant(VERIF_RC32(0) && VERIF_RC32(1) && VERIF_RC32(2) && VERIF_RC32(3) && \
                             VERIF_RC32(4) && VERIF_RC32(5) && VERIF_RC32(6) && VERIF_RC32(7) && \
                             VERIF_RC32(8) && VERIF_RC32(9) && VERIF_RC32(10) && VERIF_RC32(11)) \
    __CPROVER_loop_invariant(first_round >= __CPROVER_loop_entry(first_round)) \
    __CPROVER_loop_invariant(first_round <= 12 || first_round == __CPROVER_loop_entry(first_round)) \
    __CPROVER_loop_invariant(first_round > 12 || (__CPROVER_same_object(rc, RC) && \
                             __CPROVER_POINTER_OFFSET(rc) == (__CPROVER_size_t)8 * first_round))
#define ASCON_VERIF_GHOST_permute_c32_top \
    uint64_t verif_g0 = VINTERLEAVE(x0_e, x0_o), verif_g1 = VINTERLEAVE(x1_e, x1_o), \
             verif_g2 = VINTERLEAVE(~x2_e, ~x2_o), verif_g3 = VINTERLEAVE(x3_e, x3_o), \
             verif_g4 = VINTERLEAVE(x4_e, x4_o); \
    uint8_t verif_gk = first_round;
#define VERIF_C32_NOW(EQ, k) \
    EQ(k, VINTERLEAVE(x0_e, x0_o), VINTERLEAVE(x1_e, x1_o), VINTERLEAVE(~x2_e, ~x2_o), \
          VINTERLEAVE(x3_e, x3_o), VINTERLEAVE(x4_e, x4_o))
#if defined(VERIF_STAGE_A)
#define ASCON_VERIF_LOOP_permute_c32 VERIF_C32_STRUCT \
    __CPROVER_decreases(12 - (int)VERIF_IDX(first_round))
#define ASCON_VERIF_GHOST_permute_c32_bottom \
    __CPROVER_assert(verif_gk != verif_kk || \
        !VERIF_S_EQ(verif_A_pre, verif_g0, verif_g1, verif_g2, verif_g3, verif_g4) || \
        VERIF_C32_NOW(VERIF_S_EQ, verif_A_post), \
        "round lemma: one implementation round equals ref_round for every state and round number");
#else
#define ASCON_VERIF_LOOP_permute_c32 VERIF_C32_STRUCT \
    __CPROVER_loop_invariant(VERIF_C32_NOW(VERIF_T_EQ, VERIF_IDX(first_round))) \
    __CPROVER_decreases(12 - (int)VERIF_IDX(first_round))
#define ASCON_VERIF_GHOST_permute_c32_bottom \
    __CPROVER_assume(verif_gk < verif_r0 || \
        !VERIF_T_EQ(verif_gk, verif_g0, verif_g1, verif_g2, verif_g3, verif_g4) || \
        VERIF_C32_NOW(VERIF_T_EQ, verif_gk + 1));
#endif
#else
#define ASCON_VERIF_LOOP_permute_c32
#define ASCON_VERIF_GHOST_permute_c32_top
#define ASCON_VERIF_GHOST_permute_c32_bottom
#endif

/* ---- masked 64-bit C permutations ascon-x{2,3,4}-c64.c (C10) ----
 * Same lemma/use pair as above over the UNMASKED value of each word: the XOR of
 * the shares after undoing the per-share rotation (11 bits per share index; none
 * for the direct-xor word backend).  x2 is kept inverted in share a. */
#if defined(VERIF_LC_permute_x2_c64) || defined(VERIF_LC_permute_x3_c64) || defined(VERIF_LC_permute_x4_c64)
#if defined(ASCON_MASKED_WORD_BACKEND_DIRECT_XOR)
#define VM_UNROT(x, k) ((uint64_t)(x))
#else
#define VM_UNROT(x, k) ((uint64_t)(((uint64_t)(x) << (11 * (k))) | ((uint64_t)(x) >> (64 - 11 * (k)))))
#endif
#if !defined(VERIF_RC64)
#define VERIF_RC64(k) (RC[k] == (uint64_t)~(uint64_t)((((uint64_t)0x0F - (k)) << 4) | (k)))
#endif
#define VM_STRUCT \
    __CPROVER_loop_invariant(VERIF_RC64(0) && VERIF_RC64(1) && VERIF_RC64(2) && VERIF_RC64(3) && \
                             VERIF_RC64(4) && VERIF_RC64(5) && VERIF_RC64(6) && VERIF_RC64(7) && \
                             VERIF_RC64(8) && VERIF_RC64(9) && VERIF_RC64(10) && VERIF_RC64(11)) \
    __CPROVER_loop_invariant(first_round >= __CPROVER_loop_entry(first_round)) \
    __CPROVER_loop_invariant(first_round <= 12 || first_round == __CPROVER_loop_entry(first_round))
#define VM_TOP \
    uint64_t verif_g0 = VM_U(x0, ), verif_g1 = VM_U(x1, ), verif_g2 = VM_U(x2, ~), verif_g3 = VM_U(x3, ), verif_g4 = VM_U(x4, ); \
    uint8_t verif_gk = first_round;
#define VM_NOW(EQ, k) EQ(k, VM_U(x0, ), VM_U(x1, ), VM_U(x2, ~), VM_U(x3, ), VM_U(x4, ))
#if defined(VERIF_STAGE_A)
#define VM_LOOP(ASSIGNS) ASSIGNS VM_STRUCT __CPROVER_decreases(12 - (int)VERIF_IDX(first_round))
#define VM_BOTTOM \
    __CPROVER_assert(verif_gk != verif_kk || \
        !VERIF_S_EQ(verif_A_pre, verif_g0, verif_g1, verif_g2, verif_g3, verif_g4) || VM_NOW(VERIF_S_EQ, verif_A_post), \
        "masked round lemma: one masked round equals ref_round on the unmasked value, for every share pattern and every randomness");
#else
#define VM_LOOP(ASSIGNS) ASSIGNS VM_STRUCT \
    __CPROVER_loop_invariant(VM_NOW(VERIF_T_EQ, VERIF_IDX(first_round))) \
    __CPROVER_decreases(12 - (int)VERIF_IDX(first_round))
#define VM_BOTTOM \
    __CPROVER_assume((unsigned)(verif_gk) < verif_r0 || \
        !VERIF_T_EQ(verif_gk, verif_g0, verif_g1, verif_g2, verif_g3, verif_g4) || VM_NOW(VERIF_T_EQ, verif_gk + 1));
#endif
#endif

#if defined(VERIF_LC_permute_x2_c64)
#define VM_U(x, inv) ((uint64_t)(inv x##_a) ^ VM_UNROT(x##_b, 1))
#define ASCON_VERIF_LOOP_permute_x2_c64 VM_LOOP(__CPROVER_assigns(first_round, x0_a, x1_a, x2_a, x3_a, x4_a, x0_b, x1_b, x2_b, x3_b, x4_b, t0_a, t0_b, t1_a, t1_b))
#define ASCON_VERIF_GHOST_permute_x2_c64_top VM_TOP
#define ASCON_VERIF_GHOST_permute_x2_c64_bottom VM_BOTTOM
#else
#define ASCON_VERIF_LOOP_permute_x2_c64
#define ASCON_VERIF_GHOST_permute_x2_c64_top
#define ASCON_VERIF_GHOST_permute_x2_c64_bottom
#endif
#if defined(VERIF_LC_permute_x3_c64)
#define VM_U(x, inv) ((uint64_t)(inv x##_a) ^ VM_UNROT(x##_b, 1) ^ VM_UNROT(x##_c, 2))
#define ASCON_VERIF_LOOP_permute_x3_c64 VM_LOOP(__CPROVER_assigns(first_round, x0_a, x1_a, x2_a, x3_a, x4_a, x0_b, x1_b, x2_b, x3_b, x4_b, \
    x0_c, x1_c, x2_c, x3_c, x4_c, t0_a, t0_b, t0_c, t1_a, t1_b, t1_c))
#define ASCON_VERIF_GHOST_permute_x3_c64_top VM_TOP
#define ASCON_VERIF_GHOST_permute_x3_c64_bottom VM_BOTTOM
#else
#define ASCON_VERIF_LOOP_permute_x3_c64
#define ASCON_VERIF_GHOST_permute_x3_c64_top
#define ASCON_VERIF_GHOST_permute_x3_c64_bottom
#endif
#if defined(VERIF_LC_permute_x4_c64)
#define VM_U(x, inv) ((uint64_t)(inv x##_a) ^ VM_UNROT(x##_b, 1) ^ VM_UNROT(x##_c, 2) ^ VM_UNROT(x##_d, 3))
#define ASCON_VERIF_LOOP_permute_x4_c64 VM_LOOP(__CPROVER_assigns(first_round, x0_a, x1_a, x2_a, x3_a, x4_a, x0_b, x1_b, x2_b, x3_b, x4_b, \
    x0_c, x1_c, x2_c, x3_c, x4_c, x0_d, x1_d, x2_d, x3_d, x4_d, t0_a, t0_b, t0_c, t0_d, t1_a, t1_b, t1_c, t1_d))
#define ASCON_VERIF_GHOST_permute_x4_c64_top VM_TOP
#define ASCON_VERIF_GHOST_permute_x4_c64_bottom VM_BOTTOM
#else
#define ASCON_VERIF_LOOP_permute_x4_c64
#define ASCON_VERIF_GHOST_permute_x4_c64_top
#define ASCON_VERIF_GHOST_permute_x4_c64_bottom
#endif

#endif
