/* Ghost cut points of the LIFTED x86-64 assembly permutation (C08/C09, default build on x86-64).
 * tools/lift_x86_64.py puts VERIF_ASM_CUT_ascon_permute(n) after the n-th label of the function,
 * in text order.  Text order in ascon-asm-x86-64.S: label 0 is the trampoline for first_round >= 12,
 * labels 1..12 are the entries of the unrolled rounds 0..11, label 13 is the common exit.
 * At the cut in front of round j (and at the exit, j = 12) the registers rax, rcx, ~rdx, r8, r9 must hold
 * the reference trajectory value T[j] = ref_round(T[j-1], j-1) (built by the harness from T[first_round] ==
 * canon(state)); after the check the registers are REPLACED by T[j], which is the same value once the
 * assertion holds, so that every obligation is a one-round equivalence and no 12-round formula is built.
 * The first cut reached must be the one of round first_round: this is the jump-table/dispatch obligation. */
#ifndef GHOST_ASM_H
#define GHOST_ASM_H
#include <stdint.h>
uint64_t nondet_u64(void);
#define verif_asm_nondet_u64 nondet_u64

#define VERIF_ASM_ENTRY_ascon_permute int verif_asm_entered = 0; /* local ghost: first cut not yet reached */
#define VERIF_ASM_EXIT_ascon_permute
#define VERIF_ASM_ENTRY_ascon_backend_free
#define VERIF_ASM_EXIT_ascon_backend_free
#define VERIF_ASM_REGS_EQ(T) (rax == (T).x[0] && rcx == (T).x[1] && (uint64_t)~rdx == (T).x[2] && r8 == (T).x[3] && r9 == (T).x[4])
#define VERIF_ASM_ROUNDCUT(j, T) \
    if (!verif_asm_entered) { \
        verif_asm_entered = 1; \
        __CPROVER_assert((j) == (first_round < 12 ? first_round : 12), "dispatch: execution enters the unrolled rounds at round first_round (jump table)"); \
    } \
    __CPROVER_assert(VERIF_ASM_REGS_EQ(T), "asm cut: registers hold ref_round of the previous cut (one assembly round == one reference round)"); \
    rax = (T).x[0]; rcx = (T).x[1]; rdx = ~(T).x[2]; r8 = (T).x[3]; r9 = (T).x[4];
#define VERIF_ASM_CUT_ascon_permute(n) VERIF_ASM_CUT_P_##n
#define VERIF_ASM_CUT_P_0
#define VERIF_ASM_CUT_P_1 VERIF_ASM_ROUNDCUT(0, verif_T0)
#define VERIF_ASM_CUT_P_2 VERIF_ASM_ROUNDCUT(1, verif_T1)
#define VERIF_ASM_CUT_P_3 VERIF_ASM_ROUNDCUT(2, verif_T2)
#define VERIF_ASM_CUT_P_4 VERIF_ASM_ROUNDCUT(3, verif_T3)
#define VERIF_ASM_CUT_P_5 VERIF_ASM_ROUNDCUT(4, verif_T4)
#define VERIF_ASM_CUT_P_6 VERIF_ASM_ROUNDCUT(5, verif_T5)
#define VERIF_ASM_CUT_P_7 VERIF_ASM_ROUNDCUT(6, verif_T6)
#define VERIF_ASM_CUT_P_8 VERIF_ASM_ROUNDCUT(7, verif_T7)
#define VERIF_ASM_CUT_P_9 VERIF_ASM_ROUNDCUT(8, verif_T8)
#define VERIF_ASM_CUT_P_10 VERIF_ASM_ROUNDCUT(9, verif_T9)
#define VERIF_ASM_CUT_P_11 VERIF_ASM_ROUNDCUT(10, verif_T10)
#define VERIF_ASM_CUT_P_12 VERIF_ASM_ROUNDCUT(11, verif_T11)
#define VERIF_ASM_CUT_P_13 VERIF_ASM_ROUNDCUT(12, verif_T12)
#define VERIF_ASM_CUT_ascon_backend_free(n)
#endif
