/* Ghost definitions behind the ASCON_VERIF_LOOP(name) / ASCON_VERIF_GHOST(name)
 * hooks of /repo (src/core/ascon-verif.h).  Every hook name used in /repo has
 * a definition here; a hook is active only when the group that is being
 * verified asks for it with -DVERIF_LC_<name>, otherwise it expands to nothing
 * (and the loop is then unwound or out of the group's reach). */
#ifndef ASCON_VERIF_GHOST_H
#define ASCON_VERIF_GHOST_H

#include "verif_expr.h"
#include "spec_perm.h"

/* reference trajectory of the permutation harness: T[k] is the canonical
 * state before round k; T[12] is the result */
extern spec_state verif_T0, verif_T1, verif_T2, verif_T3, verif_T4, verif_T5, verif_T6,
    verif_T7, verif_T8, verif_T9, verif_T10, verif_T11, verif_T12;
#define VERIF_IDX(fr) ((fr) < 12 ? (unsigned)(fr) : 12u)

#include "ghost_permute.h"
#include "ghost_aead.h"
#include "ghost_hex.h"
#include "ghost_apps.h"

#endif
