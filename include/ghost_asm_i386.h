/* Ghost cut points of the LIFTED i386 assembly permutation (C08/C18).  tools/lift_i386.py puts
 * VERIF_ASM_CUT_ascon_permute(n, D) after the n-th label (text order: the entries of the unrolled rounds 0..11, then the
 * common exit), D = the statically tracked stack depth there.  The state is bit-sliced into 32-bit halves (the layout of
 * ascon-sliced32.c): at every cut the even halves are in ebx, ecx, ~edx, esi, edi and the odd halves in the stack slots
 * 4, 12, ~20, 28, 36(%esp).  Obligations as for x86-64 (include/ghost_asm.h): one assembly round == ref_round, then the
 * registers and slots are replaced by the trajectory value; the first cut reached is the one of first_round. */
#ifndef GHOST_ASM_I386_H
#define GHOST_ASM_I386_H
#include <stdint.h>
uint32_t nondet_u32(void);
#define verif_asm_nondet_u32 nondet_u32
#define VERIF_ASM_ENTRY_ascon_permute int verif_asm_entered = 0; /* local ghost: first cut not yet reached */
#define VERIF_ASM_EXIT_ascon_permute
#define VI386_W(i, e, o) VINTERLEAVE(e, o)
#define VI386_EQ(T, D) ( \
    VINTERLEAVE(ebx, VERIF_SLOT(D, 4)) == (T).x[0] && VINTERLEAVE(ecx, VERIF_SLOT(D, 12)) == (T).x[1] && \
    VINTERLEAVE((uint32_t)~edx, (uint32_t)~VERIF_SLOT(D, 20)) == (T).x[2] && \
    VINTERLEAVE(esi, VERIF_SLOT(D, 28)) == (T).x[3] && VINTERLEAVE(edi, VERIF_SLOT(D, 36)) == (T).x[4])
#define VI386_ROUNDCUT(j, T, D) \
    if (!verif_asm_entered) { \
        verif_asm_entered = 1; \
        __CPROVER_assert((j) == (first_round < 12 ? first_round : 12), "dispatch: execution enters the unrolled rounds at round first_round"); \
    } \
    __CPROVER_assert(VI386_EQ(T, D), "i386 asm cut: registers and stack slots hold ref_round of the previous cut (one assembly round == one reference round)"); \
    ebx = verif_even_bits((T).x[0]); VERIF_SLOT(D, 4) = verif_even_bits((T).x[0] >> 1); \
    ecx = verif_even_bits((T).x[1]); VERIF_SLOT(D, 12) = verif_even_bits((T).x[1] >> 1); \
    edx = ~verif_even_bits((T).x[2]); VERIF_SLOT(D, 20) = ~verif_even_bits((T).x[2] >> 1); \
    esi = verif_even_bits((T).x[3]); VERIF_SLOT(D, 28) = verif_even_bits((T).x[3] >> 1); \
    edi = verif_even_bits((T).x[4]); VERIF_SLOT(D, 36) = verif_even_bits((T).x[4] >> 1);
#define VERIF_ASM_CUT_ascon_permute(n, D) VI386_CUT_##n(D)
#define VI386_CUT_0(D) VI386_ROUNDCUT(0, verif_T0, D)
#define VI386_CUT_1(D) VI386_ROUNDCUT(1, verif_T1, D)
#define VI386_CUT_2(D) VI386_ROUNDCUT(2, verif_T2, D)
#define VI386_CUT_3(D) VI386_ROUNDCUT(3, verif_T3, D)
#define VI386_CUT_4(D) VI386_ROUNDCUT(4, verif_T4, D)
#define VI386_CUT_5(D) VI386_ROUNDCUT(5, verif_T5, D)
#define VI386_CUT_6(D) VI386_ROUNDCUT(6, verif_T6, D)
#define VI386_CUT_7(D) VI386_ROUNDCUT(7, verif_T7, D)
#define VI386_CUT_8(D) VI386_ROUNDCUT(8, verif_T8, D)
#define VI386_CUT_9(D) VI386_ROUNDCUT(9, verif_T9, D)
#define VI386_CUT_10(D) VI386_ROUNDCUT(10, verif_T10, D)
#define VI386_CUT_11(D) VI386_ROUNDCUT(11, verif_T11, D)
#define VI386_CUT_12(D) VI386_ROUNDCUT(12, verif_T12, D)
#endif
