/* Ghost cut point of the LIFTED AVR5 assembly permutation (C08/C18): canonical big-endian byte layout (ascon-direct-xor.c).
 * The function is one do-while loop over the rounds; tools/lift_avr.py puts VERIF_ASM_CUT_ascon_permute(0) at the loop head
 * (local label 20), which is passed on entry and after every round but the last.  There the round constant register is
 * r22 == ((15 - j) << 4) | j for the round j about to run; x2 (bytes 16..23) is in r3, r2, r27, r26, r21, r20, r19, r18,
 * x4 (bytes 32..39) in r11..r4, and x0, x1, x3 are in the state memory.  With first_round fixed per group (0..11; the
 * do-while form makes 12 and above meaningless for this backend) the loop unwinds completely and every cut has a
 * constant j: assert state == T[j], then replace by T[j]; the last round is covered by the function's postcondition. */
#ifndef GHOST_ASM_AVR_H
#define GHOST_ASM_AVR_H
#include <stdint.h>
uint8_t nondet_u8(void);
#define verif_asm_nondet_u8 nondet_u8
#define VERIF_ASM_ENTRY_ascon_permute int verif_asm_entered = 0;
#define VERIF_ASM_EXIT_ascon_permute
#define VERIF_ASM_ENTRY_ascon_backend_free
#define VERIF_ASM_EXIT_ascon_backend_free
#define VERIF_ASM_CUT_ascon_backend_free(n)
#define VAVR_B(k) (((uint8_t *)state)[k])
#define VAVR_BE(b0, b1, b2, b3, b4, b5, b6, b7) ((((uint64_t)(b0)) << 56) | (((uint64_t)(b1)) << 48) | (((uint64_t)(b2)) << 40) | (((uint64_t)(b3)) << 32) | \
    (((uint64_t)(b4)) << 24) | (((uint64_t)(b5)) << 16) | (((uint64_t)(b6)) << 8) | ((uint64_t)(b7)))
#define VAVR_MEM(o) VAVR_BE(VAVR_B(o), VAVR_B((o) + 1), VAVR_B((o) + 2), VAVR_B((o) + 3), VAVR_B((o) + 4), VAVR_B((o) + 5), VAVR_B((o) + 6), VAVR_B((o) + 7))
#define VAVR_PUT(o, v) { unsigned verif_q; for (verif_q = 0; verif_q < 8; ++verif_q) VAVR_B((o) + verif_q) = (uint8_t)((v) >> (56 - 8 * verif_q)); }
#define VERIF_T_GET(k) ((k) == 0 ? verif_T0 : (k) == 1 ? verif_T1 : (k) == 2 ? verif_T2 : (k) == 3 ? verif_T3 : (k) == 4 ? verif_T4 : \
    (k) == 5 ? verif_T5 : (k) == 6 ? verif_T6 : (k) == 7 ? verif_T7 : (k) == 8 ? verif_T8 : (k) == 9 ? verif_T9 : (k) == 10 ? verif_T10 : \
    (k) == 11 ? verif_T11 : verif_T12)
#define VERIF_ASM_CUT_ascon_permute(n) { \
    unsigned verif_j = r22 & 15u; \
    __CPROVER_assert(r22 == (uint8_t)(((15u - verif_j) << 4) | verif_j) && verif_j < 12u, "round constant register has the form ((15 - j) << 4) | j"); \
    if (!verif_asm_entered) { verif_asm_entered = 1; __CPROVER_assert(verif_j == first_round, "the first round executed is round first_round"); } \
    __CPROVER_assert(VERIF_T_EQ(verif_j, VAVR_MEM(0), VAVR_MEM(8), VAVR_BE(r3, r2, r27, r26, r21, r20, r19, r18), VAVR_MEM(24), \
                                VAVR_BE(r11, r10, r9, r8, r7, r6, r5, r4)), \
        "AVR asm cut: memory and registers hold ref_round of the previous cut (one assembly round == one reference round)"); \
    { spec_state verif_t = VERIF_T_GET(verif_j); \
      VAVR_PUT(0, verif_t.x[0]) VAVR_PUT(8, verif_t.x[1]) VAVR_PUT(24, verif_t.x[3]) \
      r3 = (uint8_t)(verif_t.x[2] >> 56); r2 = (uint8_t)(verif_t.x[2] >> 48); r27 = (uint8_t)(verif_t.x[2] >> 40); r26 = (uint8_t)(verif_t.x[2] >> 32); \
      r21 = (uint8_t)(verif_t.x[2] >> 24); r20 = (uint8_t)(verif_t.x[2] >> 16); r19 = (uint8_t)(verif_t.x[2] >> 8); r18 = (uint8_t)verif_t.x[2]; \
      r11 = (uint8_t)(verif_t.x[4] >> 56); r10 = (uint8_t)(verif_t.x[4] >> 48); r9 = (uint8_t)(verif_t.x[4] >> 40); r8 = (uint8_t)(verif_t.x[4] >> 32); \
      r7 = (uint8_t)(verif_t.x[4] >> 24); r6 = (uint8_t)(verif_t.x[4] >> 16); r5 = (uint8_t)(verif_t.x[4] >> 8); r4 = (uint8_t)verif_t.x[4]; } }
#endif
