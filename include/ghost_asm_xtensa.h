/* Ghost cut points of the LIFTED Xtensa (call0 ABI) assembly permutation (C08/C18): 64-bit words (layout of
 * ascon-sliced64.c on a little-endian host) held as 32-bit register pairs low/high:
 * x0 = a9/a4, x1 = a10/a5, ~x2 = a11/a6, x3 = a12/a7, x4 = a13/a8.  Obligations as in include/ghost_asm.h. */
#ifndef GHOST_ASM_XTENSA_H
#define GHOST_ASM_XTENSA_H
#include <stdint.h>
uint32_t nondet_u32(void);
#define verif_asm_nondet_u32 nondet_u32
#define VERIF_ASM_ENTRY_ascon_permute int verif_asm_entered = 0; /* local ghost: first cut not yet reached */
#define VERIF_ASM_EXIT_ascon_permute
#define VERIF_ASM_ENTRY_ascon_backend_free
#define VERIF_ASM_EXIT_ascon_backend_free
#define VERIF_ASM_CUT_ascon_backend_free(n, D)
#define VXT_W(lo, hi) ((((uint64_t)(hi)) << 32) | (uint64_t)(lo))
#define VXT_ROUNDCUT(j, T) \
    if (!verif_asm_entered) { \
        verif_asm_entered = 1; \
        __CPROVER_assert((j) == (first_round < 12 ? first_round : 12), "dispatch: execution enters the unrolled rounds at round first_round"); \
    } \
    __CPROVER_assert(VXT_W(a9, a4) == (T).x[0] && VXT_W(a10, a5) == (T).x[1] && (uint64_t)~VXT_W(a11, a6) == (T).x[2] && \
                     VXT_W(a12, a7) == (T).x[3] && VXT_W(a13, a8) == (T).x[4], \
        "Xtensa asm cut: register pairs hold ref_round of the previous cut (one assembly round == one reference round)"); \
    a9 = (uint32_t)(T).x[0]; a4 = (uint32_t)((T).x[0] >> 32); a10 = (uint32_t)(T).x[1]; a5 = (uint32_t)((T).x[1] >> 32); \
    a11 = ~(uint32_t)(T).x[2]; a6 = ~(uint32_t)((T).x[2] >> 32); a12 = (uint32_t)(T).x[3]; a7 = (uint32_t)((T).x[3] >> 32); \
    a13 = (uint32_t)(T).x[4]; a8 = (uint32_t)((T).x[4] >> 32);
#define VERIF_ASM_CUT_ascon_permute(n, D) VXT_CUT_##n
#define VXT_CUT_0 VXT_ROUNDCUT(0, verif_T0)
#define VXT_CUT_1 VXT_ROUNDCUT(1, verif_T1)
#define VXT_CUT_2 VXT_ROUNDCUT(2, verif_T2)
#define VXT_CUT_3 VXT_ROUNDCUT(3, verif_T3)
#define VXT_CUT_4 VXT_ROUNDCUT(4, verif_T4)
#define VXT_CUT_5 VXT_ROUNDCUT(5, verif_T5)
#define VXT_CUT_6 VXT_ROUNDCUT(6, verif_T6)
#define VXT_CUT_7 VXT_ROUNDCUT(7, verif_T7)
#define VXT_CUT_8 VXT_ROUNDCUT(8, verif_T8)
#define VXT_CUT_9 VXT_ROUNDCUT(9, verif_T9)
#define VXT_CUT_10 VXT_ROUNDCUT(10, verif_T10)
#define VXT_CUT_11 VXT_ROUNDCUT(11, verif_T11)
#define VXT_CUT_12 VXT_ROUNDCUT(12, verif_T12)
#endif
