/* helpers shared by harnesses */
#ifndef VERIF_HARNESS_H
#define VERIF_HARNESS_H
#include <stdint.h>
#include <stddef.h>
#include <stdlib.h>

uint8_t nondet_u8(void);
uint16_t nondet_u16(void);
uint32_t nondet_u32(void);
uint64_t nondet_u64(void);
size_t nondet_size(void);
int nondet_int(void);
unsigned nondet_unsigned(void);
_Bool nondet_bool(void);

/* vacuity guard: with -DVERIF_REACH these must be reported FAILED */
#if defined(VERIF_REACH)
#define VERIF_REACH_POINT(name) __CPROVER_assert(0, "REACH:" name)
#else
#define VERIF_REACH_POINT(name) ((void)0)
#endif

#endif
