/* Ghost cut points of the LIFTED m68k assembly permutation (C08/C18): bit-sliced 32-bit halves (layout of
 * ascon-sliced32.c); at every round label the even halves are in d0, d1, ~d2, d3, d4 and the odd halves in the address
 * registers a0, a1, ~a2, a3, a4.  Obligations as in include/ghost_asm.h. */
#ifndef GHOST_ASM_M68K_H
#define GHOST_ASM_M68K_H
#include <stdint.h>
uint32_t nondet_u32(void);
#define verif_asm_nondet_u32 nondet_u32
#define VERIF_ASM_ENTRY_ascon_permute int verif_asm_entered = 0; /* local ghost: first cut not yet reached */
#define VERIF_ASM_EXIT_ascon_permute
#define VM68_ROUNDCUT(j, T) \
    if (!verif_asm_entered) { \
        verif_asm_entered = 1; \
        __CPROVER_assert((j) == (first_round < 12 ? first_round : 12), "dispatch: execution enters the unrolled rounds at round first_round"); \
    } \
    __CPROVER_assert(VINTERLEAVE(d0, a0) == (T).x[0] && VINTERLEAVE(d1, a1) == (T).x[1] && VINTERLEAVE((uint32_t)~d2, (uint32_t)~a2) == (T).x[2] && \
                     VINTERLEAVE(d3, a3) == (T).x[3] && VINTERLEAVE(d4, a4) == (T).x[4], \
        "m68k asm cut: registers hold ref_round of the previous cut (one assembly round == one reference round)"); \
    d0 = verif_even_bits((T).x[0]); a0 = verif_even_bits((T).x[0] >> 1); d1 = verif_even_bits((T).x[1]); a1 = verif_even_bits((T).x[1] >> 1); \
    d2 = ~verif_even_bits((T).x[2]); a2 = ~verif_even_bits((T).x[2] >> 1); d3 = verif_even_bits((T).x[3]); a3 = verif_even_bits((T).x[3] >> 1); \
    d4 = verif_even_bits((T).x[4]); a4 = verif_even_bits((T).x[4] >> 1);
#define VERIF_ASM_CUT_ascon_permute(n, D) VM68_CUT_##n
#define VM68_CUT_0 VM68_ROUNDCUT(0, verif_T0)
#define VM68_CUT_1 VM68_ROUNDCUT(1, verif_T1)
#define VM68_CUT_2 VM68_ROUNDCUT(2, verif_T2)
#define VM68_CUT_3 VM68_ROUNDCUT(3, verif_T3)
#define VM68_CUT_4 VM68_ROUNDCUT(4, verif_T4)
#define VM68_CUT_5 VM68_ROUNDCUT(5, verif_T5)
#define VM68_CUT_6 VM68_ROUNDCUT(6, verif_T6)
#define VM68_CUT_7 VM68_ROUNDCUT(7, verif_T7)
#define VM68_CUT_8 VM68_ROUNDCUT(8, verif_T8)
#define VM68_CUT_9 VM68_ROUNDCUT(9, verif_T9)
#define VM68_CUT_10 VM68_ROUNDCUT(10, verif_T10)
#define VM68_CUT_11 VM68_ROUNDCUT(11, verif_T11)
#define VM68_CUT_12 VM68_ROUNDCUT(12, verif_T12)
#endif
