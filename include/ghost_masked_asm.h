/* Ghost cut points of the LIFTED x86-64 masked permutations ascon_x2/x3/x4_permute (C10, default masked
 * backend on x86-64).  tools/lift_x86_64.py puts VERIF_ASM_CUT_<fn>(n) after the n-th label: label 0 is the
 * loop body, label 1 the loop condition, which is passed once on entry and once after every round.  At label 1
 * the whole masked state is in memory except share 0 of word 2, which lives inverted in a register (rcx / r8 /
 * r9), the preserved randomness is in rax (, rcx (, r8)) and rsi = 15 * round - 241 (the loop ends at -61).
 *
 * At the cut before round j (j = 12: exit) the UNMASKED state must equal the trajectory value T[j]
 * (T[first_round] = unmasked input, T[k+1] = ref_round(T[k], k), built by the harness).  One group per
 * (share count, first_round = k) ASSERTS this at j == k + 1 - the round lemma for round k from an arbitrary
 * sharing, arbitrary preserved randomness - and ASSUMES it at the later cuts (these are the lemmas of the
 * groups k+1 .. 11).  After every cut the state is re-shared arbitrarily (fresh shares with the same unmasked
 * value, fresh preserved randomness): a superset of the states that can reach the cut, so nothing depends on
 * how the previous round distributed the shares. */
#ifndef GHOST_MASKED_ASM_H
#define GHOST_MASKED_ASM_H
#include <stdint.h>
uint64_t nondet_u64(void);
#define verif_asm_nondet_u64 nondet_u64
#define VMA_UNROT(x, k) ((uint64_t)(((uint64_t)(x) << (11 * (k))) | ((uint64_t)(x) >> (64 - 11 * (k)))))
#define VMA_ROT(x, k) ((uint64_t)(((uint64_t)(x) >> (11 * (k))) | ((uint64_t)(x) << (64 - 11 * (k)))))
#define VMA_W(i, k) (((uint64_t *)state)[ASCON_MASKED_MAX_SHARES * (i) + (k)])      /* share k of word i: each word holds ASCON_MASKED_MAX_SHARES shares */
#define VMA_S0(i, X2REG) ((i) == 2 ? (uint64_t)~(X2REG) : VMA_W(i, 0))
#if VERIF_SHARES == 2
#define VMA_U(i, X2REG) (VMA_S0(i, X2REG) ^ VMA_UNROT(VMA_W(i, 1), 1))
#elif VERIF_SHARES == 3
#define VMA_U(i, X2REG) (VMA_S0(i, X2REG) ^ VMA_UNROT(VMA_W(i, 1), 1) ^ VMA_UNROT(VMA_W(i, 2), 2))
#else
#define VMA_U(i, X2REG) (VMA_S0(i, X2REG) ^ VMA_UNROT(VMA_W(i, 1), 1) ^ VMA_UNROT(VMA_W(i, 2), 2) ^ VMA_UNROT(VMA_W(i, 3), 3))
#endif
#define VMA_RESHARE(i, X2REG, Tv) { \
    uint64_t verif_a = nondet_u64(), verif_b = nondet_u64(), verif_c = nondet_u64(), verif_v = (Tv) ^ verif_a; \
    VMA_W(i, 1) = VMA_ROT(verif_a, 1); \
    if (VERIF_SHARES >= 3) { VMA_W(i, 2) = VMA_ROT(verif_b, 2); verif_v ^= verif_b; } \
    if (VERIF_SHARES >= 4) { VMA_W(i, 3) = VMA_ROT(verif_c, 3); verif_v ^= verif_c; } \
    if ((i) == 2) { X2REG = ~verif_v; VMA_W(i, 0) = nondet_u64(); } else VMA_W(i, 0) = verif_v; }
#define VMA_CUT(X2REG, HAVOC_RANDOM) { \
    int64_t verif_rs = (int64_t)rsi; \
    unsigned verif_j = (verif_rs + 241) / 15 > 12 ? 12u : (unsigned)((verif_rs + 241) / 15); \
    __CPROVER_assert((verif_rs + 241) % 15 == 0 && verif_rs + 241 >= 0, "round counter register has the form 15 * round - 241"); \
    if (verif_j == VERIF_FIRST || verif_j == VERIF_FIRST + 1 || VERIF_FIRST >= 12) \
        __CPROVER_assert(VERIF_T_EQ(verif_j, VMA_U(0, X2REG), VMA_U(1, X2REG), VMA_U(2, X2REG), VMA_U(3, X2REG), VMA_U(4, X2REG)), \
            "masked asm round lemma: unmasked state after round first_round == ref_round(unmasked state before), for every sharing and every preserved randomness"); \
    else \
        __CPROVER_assume(VERIF_T_EQ(verif_j, VMA_U(0, X2REG), VMA_U(1, X2REG), VMA_U(2, X2REG), VMA_U(3, X2REG), VMA_U(4, X2REG))); \
    { spec_state verif_t = VERIF_T_GET(verif_j); \
      VMA_RESHARE(0, X2REG, verif_t.x[0]) VMA_RESHARE(1, X2REG, verif_t.x[1]) VMA_RESHARE(2, X2REG, verif_t.x[2]) \
      VMA_RESHARE(3, X2REG, verif_t.x[3]) VMA_RESHARE(4, X2REG, verif_t.x[4]) } \
    HAVOC_RANDOM }
#define VERIF_T_GET(k) ((k) == 0 ? verif_T0 : (k) == 1 ? verif_T1 : (k) == 2 ? verif_T2 : (k) == 3 ? verif_T3 : (k) == 4 ? verif_T4 : \
    (k) == 5 ? verif_T5 : (k) == 6 ? verif_T6 : (k) == 7 ? verif_T7 : (k) == 8 ? verif_T8 : (k) == 9 ? verif_T9 : (k) == 10 ? verif_T10 : \
    (k) == 11 ? verif_T11 : verif_T12)
#define VERIF_ASM_ENTRY_ascon_x2_permute
#define VERIF_ASM_EXIT_ascon_x2_permute
#define VERIF_ASM_ENTRY_ascon_x3_permute
#define VERIF_ASM_EXIT_ascon_x3_permute
#define VERIF_ASM_ENTRY_ascon_x4_permute
#define VERIF_ASM_EXIT_ascon_x4_permute
#define VERIF_ASM_CUT_ascon_x2_permute(n) VERIF_X2_CUT_##n
#define VERIF_X2_CUT_0
#define VERIF_X2_CUT_1 VMA_CUT(rcx, rax = nondet_u64();)
#define VERIF_ASM_CUT_ascon_x3_permute(n) VERIF_X3_CUT_##n
#define VERIF_X3_CUT_0
#define VERIF_X3_CUT_1 VMA_CUT(r8, rax = nondet_u64(); rcx = nondet_u64();)
#define VERIF_ASM_CUT_ascon_x4_permute(n) VERIF_X4_CUT_##n
#define VERIF_X4_CUT_0
#define VERIF_X4_CUT_1 VMA_CUT(r9, rax = nondet_u64(); rcx = nondet_u64(); r8 = nondet_u64();)
#endif
