/* canon(): the canonical big-endian 5x64-bit ASCON state held in an
 * ascon_state_t, defined once per backend representation.  Pure macros. */
#ifndef VERIF_CANON_H
#define VERIF_CANON_H

#include <ascon/permutation.h>
#include "core/ascon-select-backend.h"
#include "verif_expr.h"
#include "spec_perm.h"

#if defined(ASCON_BACKEND_SLICED32)
#define CANON_W(st, i) VINTERLEAVE((st)->W[2 * (i)], (st)->W[2 * (i) + 1])
#define CANON_W_OLD(st, i) VINTERLEAVE(__CPROVER_old((st)->W[2 * (i)]), __CPROVER_old((st)->W[2 * (i) + 1]))
#define VERIF_BACKEND_NAME "sliced32"
#elif defined(ASCON_BACKEND_SLICED64)
/* host word holds the numeric value of the big-endian word */
#define CANON_W(st, i) ((uint64_t)(st)->S[(i)])
#define CANON_W_OLD(st, i) ((uint64_t)__CPROVER_old((st)->S[(i)]))
#define VERIF_BACKEND_NAME "sliced64"
#elif defined(ASCON_BACKEND_DIRECT_XOR)
#define CANON_W(st, i) VBE64((st)->B + 8 * (i))
#define CANON_W_OLD(st, i) VBE64_OLD((st)->B + 8 * (i))
#define VERIF_BACKEND_NAME "direct-xor"
#else
#error "no canonical view for this backend"
#endif

/* canonical byte i (0..39) */
#define CANON_B(st, i) VBYTE64(CANON_W((st), (i) / 8), (i) % 8)
#define CANON_B_OLD(st, i) VBYTE64(CANON_W_OLD((st), (i) / 8), (i) % 8)

static inline spec_state verif_canon(const ascon_state_t *st)
{
    spec_state s;
    s.x[0] = CANON_W(st, 0); s.x[1] = CANON_W(st, 1); s.x[2] = CANON_W(st, 2);
    s.x[3] = CANON_W(st, 3); s.x[4] = CANON_W(st, 4);
    return s;
}

/* the inverse: store a canonical state into the backend representation
 * (used only by specification stubs that stand in for L1 functions) */
#if defined(ASCON_BACKEND_SLICED32)
static inline uint32_t verif_even_bits(uint64_t x)
{
    x &= 0x5555555555555555ULL;
    x = (x | (x >> 1)) & 0x3333333333333333ULL;
    x = (x | (x >> 2)) & 0x0F0F0F0F0F0F0F0FULL;
    x = (x | (x >> 4)) & 0x00FF00FF00FF00FFULL;
    x = (x | (x >> 8)) & 0x0000FFFF0000FFFFULL;
    x = (x | (x >> 16)) & 0x00000000FFFFFFFFULL;
    return (uint32_t)x;
}
#endif
static inline void verif_set_canon(ascon_state_t *st, spec_state s)
{
    unsigned i;
    for (i = 0; i < 5; ++i) {
#if defined(ASCON_BACKEND_SLICED32)
        st->W[2 * i] = verif_even_bits(s.x[i]);
        st->W[2 * i + 1] = verif_even_bits(s.x[i] >> 1);
#elif defined(ASCON_BACKEND_SLICED64)
        /* stored byte-wise (little-endian host word): storing through S[] and then
         * accessing the same bytes through B[] (ascon_add_bytes) gave wrong results
         * in CBMC 6.11's field-sensitive handling of this union; byte stores do not */
        { unsigned j; for (j = 0; j < 8; ++j) st->B[8 * i + j] = (uint8_t)(s.x[i] >> (8 * j)); }
#else
        unsigned j;
        for (j = 0; j < 8; ++j)
            st->B[8 * i + j] = (uint8_t)(s.x[i] >> (56 - 8 * j));
#endif
    }
}

#endif
