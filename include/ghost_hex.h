/* Loop contracts for src/core/ascon-hex.c (C20).  These loops write out[posn++]
 * in INDEX form, which CBMC loop contracts can abstract with a whole-object
 * frame (unlike the moving-pointer stores of DESIGN 2.9). */
#ifndef GHOST_HEX_H
#define GHOST_HEX_H
#if defined(VERIF_LC_hex_to)
extern const unsigned char *verif_in0;
extern size_t verif_inlen0;
extern size_t verif_j;              /* ghost: any output index */
#define VHEX(b, odd, up) ((char)((up) ? "0123456789ABCDEF"[(odd) ? ((b) & 15) : ((b) >> 4)] : "0123456789abcdef"[(odd) ? ((b) & 15) : ((b) >> 4)]))
/* DFCC havocs function-local static tables when it abstracts a loop: restate (and thereby verify) them */
#define VHT(i) (hex_lower[i] == "0123456789abcdef"[i] && hex_upper[i] == "0123456789ABCDEF"[i])
#define ASCON_VERIF_LOOP_hex_to \
    __CPROVER_assigns(in, inlen, posn, __CPROVER_object_whole(out)) \
    __CPROVER_loop_invariant(__CPROVER_same_object(in, __CPROVER_loop_entry(in)) && inlen <= __CPROVER_loop_entry(inlen)) \
    __CPROVER_loop_invariant(__CPROVER_POINTER_OFFSET(in) == __CPROVER_POINTER_OFFSET(__CPROVER_loop_entry(in)) + (__CPROVER_loop_entry(inlen) - inlen)) \
    __CPROVER_loop_invariant(posn == 2 * (__CPROVER_loop_entry(inlen) - inlen)) \
    __CPROVER_loop_invariant(hex_chars == (upper_case ? hex_upper : hex_lower)) \
    __CPROVER_loop_invariant(VHT(0) && VHT(1) && VHT(2) && VHT(3) && VHT(4) && VHT(5) && VHT(6) && VHT(7) && VHT(8) && VHT(9) && \
                             VHT(10) && VHT(11) && VHT(12) && VHT(13) && VHT(14) && VHT(15)) \
    __CPROVER_loop_invariant(!(verif_j < posn) || out[verif_j] == VHEX(verif_in0[verif_j / 2], verif_j & 1, upper_case)) \
    __CPROVER_decreases(inlen)
#else
#define ASCON_VERIF_LOOP_hex_to
#endif
#if defined(VERIF_LC_hex_from)
/* Shadow automaton = the specification of the decoder, advanced by ghost code at
 * the top of every iteration on the character about to be consumed: accepted
 * classes exactly 0-9a-fA-F (a digit) and the six white-space characters
 * (skipped); anything else, or a completed byte when no space is left, is an
 * error.  The loop invariant says the code's (posn, nibble, value) IS the shadow
 * state and no error has been passed over; the function contract says the result
 * is what the shadow automaton says.  verif_j: any output index; verif_expj: the
 * byte the specification puts there. */
extern size_t verif_j, verif_gpos;
extern int verif_ghave, verif_ghi, verif_gerr;
extern unsigned char verif_expj;
#define VDIG(c) (((c) >= '0' && (c) <= '9') ? (c) - '0' : ((c) >= 'a' && (c) <= 'f') ? (c) - 'a' + 10 : \
                 ((c) >= 'A' && (c) <= 'F') ? (c) - 'A' + 10 : \
                 ((c) == ' ' || (c) == '\t' || (c) == '\r' || (c) == '\n' || (c) == '\f' || (c) == '\v') ? -2 : -1)
#define ASCON_VERIF_LOOP_hex_from \
    __CPROVER_assigns(in, inlen, posn, value, nibble, digit, __CPROVER_object_whole(out), verif_gpos, verif_ghave, verif_ghi, verif_gerr, verif_expj) \
    __CPROVER_loop_invariant(__CPROVER_same_object(in, __CPROVER_loop_entry(in)) && inlen <= __CPROVER_loop_entry(inlen)) \
    __CPROVER_loop_invariant(__CPROVER_POINTER_OFFSET(in) == __CPROVER_POINTER_OFFSET(__CPROVER_loop_entry(in)) + (__CPROVER_loop_entry(inlen) - inlen)) \
    __CPROVER_loop_invariant(!verif_gerr && posn == verif_gpos && posn <= outlen && (nibble != 0) == (verif_ghave != 0)) \
    __CPROVER_loop_invariant(verif_ghi >= 0 && verif_ghi <= 15) \
    __CPROVER_loop_invariant(!nibble || value == (int)((unsigned)verif_ghi << 4)) \
    __CPROVER_loop_invariant(!(verif_j < posn) || out[verif_j] == verif_expj) \
    __CPROVER_decreases(inlen)
#define ASCON_VERIF_GHOST_hex_from_top \
    { int verif_d = VDIG(*in); \
      if (verif_d == -1) verif_gerr = 1; \
      else if (verif_d >= 0) { \
          if (!verif_ghave) { verif_ghi = verif_d; verif_ghave = 1; } \
          else if (verif_gpos >= outlen) verif_gerr = 1; \
          else { if (verif_gpos == verif_j) verif_expj = (unsigned char)(((unsigned)verif_ghi << 4) | (unsigned)verif_d); verif_gpos++; verif_ghave = 0; } } }
#else
#define ASCON_VERIF_LOOP_hex_from
#define ASCON_VERIF_GHOST_hex_from_top
#endif
#endif
