/* Ghost cut points of the LIFTED 32-bit ARM assembly permutations (ARMv6, ARMv7-M; C08/C18): bit-sliced 32-bit halves
 * (layout of ascon-sliced32.c).  At every round label the even halves are in r2, r3, r4, r5, r6 and the odd halves in
 * r7, r8, r9, r10, r11 (word 2 is NOT kept inverted by these backends; VERIF_ARM32_X2INV selects the other convention).
 * Obligations as in include/ghost_asm.h. */
#ifndef GHOST_ASM_ARM32_H
#define GHOST_ASM_ARM32_H
#include <stdint.h>
uint32_t nondet_u32(void);
#define verif_asm_nondet_u32 nondet_u32
#define VERIF_ASM_ENTRY_ascon_permute int verif_asm_entered = 0; /* local ghost: first cut not yet reached */
#define VERIF_ASM_EXIT_ascon_permute
#if defined(VERIF_ARM32_X2INV)
#define VA32_X2(v) ((uint32_t)~(v))
#else
#define VA32_X2(v) ((uint32_t)(v))
#endif
#define VA32_ROUNDCUT(j, T) \
    if (!verif_asm_entered) { \
        verif_asm_entered = 1; \
        __CPROVER_assert((j) == (first_round < 12 ? first_round : 12), "dispatch: execution enters the unrolled rounds at round first_round"); \
    } \
    __CPROVER_assert(VINTERLEAVE(r2, r7) == (T).x[0] && VINTERLEAVE(r3, r8) == (T).x[1] && VINTERLEAVE(VA32_X2(r4), VA32_X2(r9)) == (T).x[2] && \
                     VINTERLEAVE(r5, r10) == (T).x[3] && VINTERLEAVE(r6, r11) == (T).x[4], \
        "ARM asm cut: registers hold ref_round of the previous cut (one assembly round == one reference round)"); \
    r2 = verif_even_bits((T).x[0]); r7 = verif_even_bits((T).x[0] >> 1); r3 = verif_even_bits((T).x[1]); r8 = verif_even_bits((T).x[1] >> 1); \
    r4 = VA32_X2(verif_even_bits((T).x[2])); r9 = VA32_X2(verif_even_bits((T).x[2] >> 1)); r5 = verif_even_bits((T).x[3]); r10 = verif_even_bits((T).x[3] >> 1); \
    r6 = verif_even_bits((T).x[4]); r11 = verif_even_bits((T).x[4] >> 1);
#define VERIF_ASM_CUT_ascon_permute(n, D) VA32_CUT_##n
#define VA32_CUT_0 VA32_ROUNDCUT(0, verif_T0)
#define VA32_CUT_1 VA32_ROUNDCUT(1, verif_T1)
#define VA32_CUT_2 VA32_ROUNDCUT(2, verif_T2)
#define VA32_CUT_3 VA32_ROUNDCUT(3, verif_T3)
#define VA32_CUT_4 VA32_ROUNDCUT(4, verif_T4)
#define VA32_CUT_5 VA32_ROUNDCUT(5, verif_T5)
#define VA32_CUT_6 VA32_ROUNDCUT(6, verif_T6)
#define VA32_CUT_7 VA32_ROUNDCUT(7, verif_T7)
#define VA32_CUT_8 VA32_ROUNDCUT(8, verif_T8)
#define VA32_CUT_9 VA32_ROUNDCUT(9, verif_T9)
#define VA32_CUT_10 VA32_ROUNDCUT(10, verif_T10)
#define VA32_CUT_11 VA32_ROUNDCUT(11, verif_T11)
#define VA32_CUT_12 VA32_ROUNDCUT(12, verif_T12)
#endif
