#!/usr/bin/env python3
"""lift_x86_64.py <file.S> <out.c> [--fn name:ret:params ...]

Mechanical extraction of the x86-64 (AT&T syntax) assembly backends of ascon-suite
into C that CBMC can read.  Run on every check from /repo's current working tree.

What is kept: every instruction of every function in the file, in order, one C
statement per instruction over uint64_t variables named after the registers; every
label (as a C label followed by the ghost macro VERIF_ASM_CUT_<fn>(n), n = ordinal of
the label in the text of the function, where the proof is cut); the jump table
(as a switch over the table's entries, in the file's order); memory operands
disp(%rdi) / disp(%rsp).

What is dropped: assembler directives (.text, .section, .p2align, .globl, .type,
.size, .cfi_*, .align) except .long/.quad entries of jump tables; the __APPLE__ and
Windows variants of prologue/epilogue (the file is run through `gcc -E` with the
Linux defaults first); comments.

Trusted (stated in the evidence): this instruction table (movq, xorq, andq, orq, notq,
rorq, rolq, addq, subq, shlq, shrq, pushq, popq, cmpq+jcc (signed), jmp, ret and the leaq/movslq/addq/jmp*
jump-table idiom), the System V calling convention (first arguments in rdi, rsi, rdx,
rcx; an 8-bit argument arrives zero-extended), flags are modelled only for an
adjacent cmpq/jge pair.

Must-fire rules: any instruction, operand form or directive not in the tables below
aborts the extraction (exit 3 => the check reports UNDECIDED, never a verdict)."""
import re
import subprocess
import sys

REGS = ["rax", "rbx", "rcx", "rdx", "rsi", "rdi", "rbp", "r8", "r9", "r10", "r11", "r12", "r13", "r14", "r15"]
CALLEE_SAVED = ["rbx", "rbp", "r12", "r13", "r14", "r15"]
DROP_DIRECTIVES = (".text", ".section", ".p2align", ".globl", ".type", ".size", ".cfi_startproc", ".cfi_endproc",
                   ".align", ".file", ".ident", ".cfi_def_cfa_offset", ".cfi_offset", ".cfi_adjust_cfa_offset",
                   ".cfi_restore", ".data", ".balign")


JCC = {"jge": ">=", "jl": "<", "jg": ">", "jle": "<=", "je": "==", "jne": "!="}   # after cmpq src, dst: jump if dst <op> src (signed)


class LiftError(Exception):
    pass


SUB32 = {"eax": "rax", "ebx": "rbx", "ecx": "rcx", "edx": "rdx", "esi": "rsi", "edi": "rdi", "ebp": "rbp"}
SUB32.update({"r%dd" % i: "r%d" % i for i in range(8, 16)})
SUB8 = {"al": "rax", "bl": "rbx", "cl": "rcx", "dl": "rdx", "sil": "rsi", "dil": "rdi", "bpl": "rbp"}
SUB8.update({"r%db" % i: "r%d" % i for i in range(8, 16)})


def reg32(tok):
    m = re.fullmatch(r"%(\w+)", tok)
    if not m or m.group(1) not in SUB32:
        raise LiftError("unsupported 32-bit register operand %r" % tok)
    return SUB32[m.group(1)]


def reg8(tok):
    m = re.fullmatch(r"%(\w+)", tok)
    if not m or m.group(1) not in SUB8:
        raise LiftError("unsupported 8-bit register operand %r" % tok)
    return SUB8[m.group(1)]


def addr(tok, arg0):
    """address expression (uint64_t) of disp(%base) or disp(%base,%index[,scale])"""
    m = re.fullmatch(r"(-?\d*)\(%(\w+)(?:,%(\w+)(?:,(\d))?)?\)", tok.replace(" ", ""))
    if not m:
        raise LiftError("unsupported memory operand %r" % tok)
    disp = int(m.group(1) or "0")
    base, index, scale = m.group(2), m.group(3), int(m.group(4) or "1")
    if base not in REGS or (index and index not in REGS) or scale not in (1, 2, 4, 8):
        raise LiftError("unsupported memory operand %r" % tok)
    b = "(uint64_t)%s" % arg0 if (base == "rdi" and arg0) else base
    e = b
    if index:
        e += " + %s * %dULL" % (index, scale)
    if disp:
        e += (" + %dULL" % disp) if disp > 0 else (" - %dULL" % -disp)
    return "(" + e + ")"


def reg(tok):
    m = re.fullmatch(r"%(\w+)", tok)
    if not m or m.group(1) not in REGS:
        raise LiftError("unsupported register operand %r" % tok)
    return m.group(1)


def imm(tok, allow64=False):
    m = re.fullmatch(r"\$(-?(?:0x[0-9a-fA-F]+|\d+))", tok)
    if not m:
        raise LiftError("unsupported immediate %r" % tok)
    v = int(m.group(1), 0)
    if allow64 and -(1 << 63) <= v < (1 << 64):      # movq $imm64, %reg (movabs)
        return "((uint64_t)0x%xULL)" % (v & ((1 << 64) - 1))
    if not -(1 << 31) <= v < (1 << 31):
        raise LiftError("immediate out of imm32 range %r" % tok)
    return "((uint64_t)(int64_t)%d)" % v


def mem(tok, arg0):
    """disp(%reg): 64-bit word access.  Base rdi (never written: checked) is the first pointer argument and is
    accessed through the C parameter; any other base register holds an address as an integer (a pointer
    argument copied/pushed/popped) and is accessed through an integer-to-pointer cast."""
    m = re.fullmatch(r"(-?\d*)\(%(\w+)\)", tok)
    if not m:
        return None
    disp = int(m.group(1) or "0")
    base = m.group(2)
    if base not in REGS:
        raise LiftError("memory operand with unsupported base: %r" % tok)
    if disp % 8:
        raise LiftError("unaligned displacement %r" % tok)
    if base == "rdi" and arg0:
        return "((uint64_t *)%s)[%d]" % (arg0, disp // 8)
    return "(*(uint64_t *)(%s + %dULL))" % (base, disp) if disp >= 0 else "(*(uint64_t *)(%s - %dULL))" % (base, -disp)


def split_ops(s):
    out, depth, cur = [], 0, ""
    for ch in s:
        if ch == "(":
            depth += 1
        if ch == ")":
            depth -= 1
        if ch == "," and depth == 0:
            out.append(cur.strip())
            cur = ""
        else:
            cur += ch
    if cur.strip():
        out.append(cur.strip())
    return out


def preprocess(path, cppflags=()):
    r = subprocess.run(["gcc", "-E", "-P", "-x", "assembler-with-cpp", "-I/repo/src/core", "-I/repo/src",
                        "-I/repo/src/masking"] + list(cppflags) + [path],
                       stdout=subprocess.PIPE, stderr=subprocess.PIPE)
    if r.returncode:
        raise LiftError("gcc -E failed: " + r.stderr.decode()[-300:])
    return r.stdout.decode()


PLAIN = False      # --plain: no ghost macros (ENTRY/EXIT/CUT) are emitted, only VERIF_ASM_CALL_<callee>


def lift(text, sigs):
    lines = [l.strip() for l in text.splitlines()]
    lines = [l for l in lines if l and not l.startswith("#")]
    # split into functions at global labels
    funcs, cur, tables, cur_table = {}, None, {}, None
    order = []
    i = 0
    for l in lines:
        m = re.fullmatch(r"([A-Za-z_.][\w.]*):", l)
        if m:
            name = m.group(1)
            if not name.startswith(".L"):
                cur = name
                funcs[cur] = []
                order.append(cur)
                cur_table = None
                continue
            if cur is None:
                raise LiftError("label outside function: " + l)
            funcs[cur].append(("label", name))
            cur_table = name
            continue
        if l.startswith("."):
            d = l.split()[0]
            if d in (".long", ".quad"):
                m2 = re.fullmatch(r"\.(?:long|quad)\s+([\w.]+)-([\w.]+)", l)
                if not m2 or cur_table is None or m2.group(2) != cur_table:
                    raise LiftError("unsupported data directive: " + l)
                tables.setdefault(cur_table, []).append(m2.group(1))
                continue
            if d in DROP_DIRECTIVES:
                continue
            raise LiftError("unsupported directive: " + l)
        if cur is None:
            raise LiftError("instruction outside function: " + l)
        parts = l.split(None, 1)
        funcs[cur].append(("insn", parts[0], split_ops(parts[1]) if len(parts) > 1 else []))
    out = ["/* GENERATED by tools/lift_x86_64.py on every run - do not edit */",
           "#include <stdint.h>", "#include <stddef.h>", ""]
    stats = {}
    for fn in order:
        if fn not in sigs:
            raise LiftError("no C signature given for assembly function %s" % fn)
        ret, params = sigs[fn]
        body, ninsn = lift_fn(fn, funcs[fn], tables, params)
        stats[fn] = ninsn
        out.append("%s %s(%s)" % (ret, fn, ", ".join("%s %s" % p for p in params)))
        out.append("{")
        out += body
        out.append("}")
        out.append("")
    return "\n".join(out), stats


ARGREGS = ["rdi", "rsi", "rdx", "rcx"]


def lift_fn(fn, items, tables, params):
    b = []
    argmap = {}
    for (ty, nm), r in zip(params, ARGREGS):
        argmap[r] = (ty, nm)
    ptr0 = params[0][1] if params and "*" in params[0][0] else None
    # rdi stays "the first pointer argument" only if the function never writes it (and makes no call)
    for it in items:
        if it[0] == "insn" and (it[1] == "call" or (it[1] not in ("cmpq", "pushq") and it[2] and it[2][-1] in ("%rdi", "%edi", "%dil"))):
            ptr0 = None
    written = set()
    decl = []
    for r in REGS:
        if r == "rdi" and ptr0:
            continue
        if r in argmap:
            decl.append("    uint64_t %s = (uint64_t)%s; /* argument register */" % (r, argmap[r][1]))
        else:
            decl.append("    uint64_t %s = verif_asm_nondet_u64(); /* arbitrary on entry */" % r)
    decl.append("    uint64_t verif_stack[16]; unsigned verif_sp = 0;")
    for r in CALLEE_SAVED:
        decl.append("    const uint64_t verif_entry_%s = %s;" % (r, r))
    b += decl
    if not PLAIN:
        b.append("    VERIF_ASM_ENTRY_%s" % fn)
    cut = 0
    n = 0
    k = 0
    pending_cmp = None
    while k < len(items):
        it = items[k]
        if it[0] == "label":
            name = it[1]
            if name in tables:      # a jump table that sits in the instruction stream: data, not a cut point
                k += 1
                continue
            b.append("%s: ;" % name.replace(".", "_"))
            if not PLAIN:
                b.append("    VERIF_ASM_CUT_%s(%d)" % (fn, cut))
            cut += 1
            k += 1
            continue
        _, op, ops = it
        n += 1
        if pending_cmp is not None and op not in JCC:
            raise LiftError("%s: cmpq not followed by a signed conditional jump (flags are not modelled): %s" % (fn, op))
        if op == "pushq":
            r = reg(ops[0])
            b.append("    __CPROVER_assert(verif_sp < 16, \"asm stack model: depth\"); verif_stack[verif_sp] = %s; verif_sp = verif_sp + 1;" % r)
        elif op == "popq":
            r = reg(ops[0])
            b.append("    __CPROVER_assert(verif_sp > 0, \"asm stack model: pop from empty stack\"); verif_sp = verif_sp - 1; %s = verif_stack[verif_sp];" % r)
            written.add(r)
        elif op == "movq":
            src, dst = ops
            if src.startswith("$"):
                b.append("    %s = %s;" % (reg(dst), imm(src, allow64=True)))
                written.add(reg(dst))
            elif mem(src, ptr0) if "(" in src else None:
                b.append("    %s = %s;" % (reg(dst), mem(src, ptr0)))
                written.add(reg(dst))
            elif "(" in dst:
                b.append("    %s = %s;" % (mem(dst, ptr0), reg(src)))
            else:
                b.append("    %s = %s;" % (reg(dst), reg(src)))
                written.add(reg(dst))
        elif op in ("xorq", "andq", "orq", "addq", "subq"):
            cop = {"xorq": "^", "andq": "&", "orq": "|", "addq": "+", "subq": "-"}[op]
            src, dst = ops
            s = imm(src) if src.startswith("$") else (mem(src, ptr0) if "(" in src else reg(src))
            if "(" in dst:
                b.append("    %s = %s %s %s;" % (mem(dst, ptr0), mem(dst, ptr0), cop, s))
            else:
                b.append("    %s = %s %s %s;" % (reg(dst), reg(dst), cop, s))
                written.add(reg(dst))
        elif op == "notq":
            b.append("    %s = ~%s;" % (reg(ops[0]), reg(ops[0])))
            written.add(reg(ops[0]))
        elif op in ("rorq", "rolq"):
            m = re.fullmatch(r"\$(\d+)", ops[0])
            if not m or not 0 < int(m.group(1)) < 64:
                raise LiftError("unsupported rotate count " + ops[0])
            c = int(m.group(1))
            r = reg(ops[1])
            if op == "rorq":
                b.append("    %s = (%s >> %d) | (%s << %d);" % (r, r, c, r, 64 - c))
            else:
                b.append("    %s = (%s << %d) | (%s >> %d);" % (r, r, c, r, 64 - c))
            written.add(r)
        elif op in ("shlq", "shrq"):
            r = reg(ops[1])
            if ops[0] == "%cl":      # variable count: the hardware uses the low 6 bits of cl
                b.append("    %s = %s %s (rcx & 63);" % (r, r, "<<" if op == "shlq" else ">>"))
            else:
                m = re.fullmatch(r"\$(\d+)", ops[0])
                if not m or not 0 < int(m.group(1)) < 64:
                    raise LiftError("unsupported shift count " + ops[0])
                b.append("    %s = %s %s %d;" % (r, r, "<<" if op == "shlq" else ">>", int(m.group(1))))
            written.add(r)
        elif op == "bswapq":
            r = reg(ops[0])
            b.append("    %s = ((%s >> 56) & 0xffULL) | ((%s >> 40) & 0xff00ULL) | ((%s >> 24) & 0xff0000ULL) | ((%s >> 8) & 0xff000000ULL) | "
                     "((%s << 8) & 0xff00000000ULL) | ((%s << 24) & 0xff0000000000ULL) | ((%s << 40) & 0xff000000000000ULL) | (%s << 56);" % ((r,) * 9))
            written.add(r)
        elif op == "movzbl":       # zero-extending byte load (a 32-bit destination clears the upper half too)
            r = reg32(ops[1])
            b.append("    %s = (uint64_t)*(uint8_t *)%s;" % (r, addr(ops[0], ptr0)))
            written.add(r)
        elif op == "movl":
            src, dst = ops
            if "(" in src:
                r = reg32(dst)
                b.append("    %s = (uint64_t)*(uint32_t *)%s;" % (r, addr(src, ptr0)))
                written.add(r)
            elif "(" in dst:
                b.append("    *(uint32_t *)%s = (uint32_t)%s;" % (addr(dst, ptr0), reg32(src)))
            elif src.startswith("$"):
                r = reg32(dst)
                b.append("    %s = (uint64_t)(uint32_t)%s;" % (r, imm(src)))
                written.add(r)
            else:
                r = reg32(dst)
                b.append("    %s = (uint64_t)(uint32_t)%s;" % (r, reg32(src)))
                written.add(r)
        elif op == "movb":
            src, dst = ops
            if "(" in dst and not "(" in src and not src.startswith("$"):
                b.append("    *(uint8_t *)%s = (uint8_t)%s;" % (addr(dst, ptr0), reg8(src)))
            else:
                raise LiftError("unsupported movb form %s, %s" % (src, dst))
        elif op == "call":
            m = re.fullmatch(r"([A-Za-z_]\w*)(?:@PLT)?", ops[0])
            if not m:
                raise LiftError("unsupported call target " + ops[0])
            b.append("    VERIF_ASM_CALL_%s" % m.group(1))
            b.append("    rcx = verif_asm_nondet_u64(); rdx = verif_asm_nondet_u64(); rsi = verif_asm_nondet_u64(); %sr8 = verif_asm_nondet_u64(); "
                     "r9 = verif_asm_nondet_u64(); r10 = verif_asm_nondet_u64(); r11 = verif_asm_nondet_u64(); /* caller-saved registers are dead after a call */"
                     % ("rdi = verif_asm_nondet_u64(); " if not ptr0 else ""))
            written.update(["rax", "rcx", "rdx", "rsi", "r8", "r9", "r10", "r11"] + ([] if ptr0 else ["rdi"]))
        elif op == "cmpq":
            pending_cmp = (imm(ops[0]) if ops[0].startswith("$") else reg(ops[0]), reg(ops[1]))
        elif op in JCC:
            if pending_cmp is None:
                raise LiftError("%s without adjacent cmpq" % op)
            b.append("    if ((int64_t)%s %s (int64_t)%s) goto %s;" % (pending_cmp[1], JCC[op], pending_cmp[0], ops[0].replace(".", "_")))
            pending_cmp = None
        elif op == "leaq":
            # jump-table idiom: leaq T(%rip),%a ; movslq (%a,%i,4),%b ; addq %a,%b ; jmp *%b
            m = re.fullmatch(r"([\w.]+)\(%rip\)", ops[0])
            nxt = items[k + 1:k + 4]
            if not m or len(nxt) < 3 or any(x[0] != "insn" for x in nxt):
                raise LiftError("unsupported leaq form")
            tab, a = m.group(1), reg(ops[1])
            (_, o1, p1), (_, o2, p2), (_, o3, p3) = nxt
            m1 = re.fullmatch(r"\(%(\w+),%(\w+),4\)", p1[0].replace(" ", "")) if o1 == "movslq" else None
            if not m1 or m1.group(1) != a or o2 != "addq" or reg(p2[0]) != a or o3 != "jmp" or p3[0] != "*%" + reg(p2[1]) \
               or reg(p1[1]) != reg(p2[1]) or tab not in tables:
                raise LiftError("jump-table idiom not recognised")
            idx, tgt = m1.group(2), reg(p1[1])
            b.append("    %s = verif_asm_nondet_u64(); %s = verif_asm_nondet_u64(); /* hold code addresses */" % (a, tgt))
            b.append("    __CPROVER_assert(%s < %d, \"jump table index within the table\");" % (idx, len(tables[tab])))
            b.append("    switch (%s) {" % idx)
            for j, lab in enumerate(tables[tab]):
                b.append("    case %d: goto %s;" % (j, lab.replace(".", "_")))
            b.append("    default: __CPROVER_assume(0);")
            b.append("    }")
            written.update([a, tgt])
            n += 3
            k += 4
            continue
        elif op == "jmp":
            if ops[0].startswith("*"):
                raise LiftError("indirect jump outside the jump-table idiom")
            b.append("    goto %s;" % ops[0].replace(".", "_"))
        elif op in ("ret", "retq"):
            b.append("    __CPROVER_assert(verif_sp == 0, \"ABI: stack balanced at ret\");")
            for r in CALLEE_SAVED:
                b.append("    __CPROVER_assert(%s == verif_entry_%s, \"ABI: callee-saved register %s restored\");" % (r, r, r))
            if not PLAIN:
                b.append("    VERIF_ASM_EXIT_%s" % fn)
            b.append("    return;")
        else:
            raise LiftError("%s: unsupported instruction %s %s" % (fn, op, ", ".join(ops)))
        k += 1
    if "rdi" in written and ptr0:
        raise LiftError("%s writes rdi (memory operands assume it holds the first argument)" % fn)
    return b, n


def main():
    src, out = sys.argv[1], sys.argv[2]
    global PLAIN
    sigs = {}
    cppflags = []
    for a in sys.argv[3:]:
        if a == "--plain":
            PLAIN = True
        if a.startswith("--cpp="):
            cppflags.append(a[6:])
        if a.startswith("--fn="):
            name, ret, params = a[5:].split(":")
            ps = []
            for p in params.split(",") if params else []:
                ty, nm = p.rsplit(" ", 1)
                ps.append((ty.strip(), nm.strip()))
            sigs[name] = (ret, ps)
    try:
        text, stats = lift(preprocess(src, cppflags), sigs)
    except LiftError as e:
        sys.stderr.write("lift_x86_64: EXTRACTION FAILED: %s\n" % e)
        return 3
    open(out, "w").write(text)
    sys.stderr.write("lifted %s: %s\n" % (src, ", ".join("%s=%d instructions" % kv for kv in stats.items())))
    return 0


if __name__ == "__main__":
    sys.exit(main())
