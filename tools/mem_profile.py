#!/usr/bin/env python3
"""mem_profile.py: rebuild lib/mem_profile.json from the peak solver memory recorded in evidence/*.json:
  "names": peak (GB) of every group seen that needed more than 0.7 GB (a group seen below that is listed in "small");
  "keys":  maximum per (harness, enforced function, configuration) - the fallback for groups not seen before."""
import glob
import json
import os
V = os.path.dirname(os.path.dirname(os.path.abspath(__file__)))
path = os.path.join(V, "lib", "mem_profile.json")
try:
    prof = json.load(open(path))
    prof.setdefault("names", {}); prof.setdefault("keys", {}); prof.setdefault("small", [])
except Exception:
    prof = {"names": {}, "keys": {}, "small": []}
small = set(prof["small"])
for f in glob.glob(os.path.join(V, "evidence", "*.json")):
    try:
        d = json.load(open(f))
    except Exception:
        continue
    for g in d.get("coverage", {}).get("groups", []):
        k, m, n = g.get("mem_key"), g.get("solver_peak_rss_gb", 0), g.get("name", "")
        n = n.split(".", 1)[1] if "." in n else n          # drop the property prefix (c01. / c12. ...): groups are shared
        if not k or not m:
            continue
        if m > 0.7:
            prof["names"][n] = max(prof["names"].get(n, 0), round(m + 0.3, 1))
            small.discard(n)
        elif n not in prof["names"]:
            small.add(n)
        if m > 1.5:
            prof["keys"][k] = max(prof["keys"].get(k, 0), round(m + 0.5, 1))
prof["small"] = sorted(small)
json.dump(prof, open(path, "w"), indent=0, sort_keys=True)
print("%d named groups above 0.7 GB, %d small, %d keys" % (len(prof["names"]), len(prof["small"]), len(prof["keys"])))
