#!/usr/bin/env python3
"""mem_profile.py: rebuild lib/mem_profile.json (expected peak solver memory per (harness, enforced function, configuration))
from the peaks recorded in evidence/*.json.  Only keys above 1.5 GB are stored (the default estimate is 2 GB)."""
import glob
import json
import os
V = os.path.dirname(os.path.dirname(os.path.abspath(__file__)))
prof = {}
try:
    prof = json.load(open(os.path.join(V, "lib", "mem_profile.json")))
except Exception:
    pass
for f in glob.glob(os.path.join(V, "evidence", "*.json")):
    try:
        d = json.load(open(f))
    except Exception:
        continue
    for g in d.get("coverage", {}).get("groups", []):
        k, m = g.get("mem_key"), g.get("solver_peak_rss_gb", 0)
        if k and m and m > 1.5:
            prof[k] = max(prof.get(k, 0), round(m + 0.5, 1))
json.dump(prof, open(os.path.join(V, "lib", "mem_profile.json"), "w"), indent=1, sort_keys=True)
print("%d keys above 1.5 GB" % len(prof))
