#!/usr/bin/env python3
"""Regenerates /verif/MANIFEST.json from the per-property texts below and the
hook commits found in /repo's history."""
import json
import os
import subprocess

VERIF = os.path.dirname(os.path.dirname(os.path.abspath(__file__)))

CLAIMS = {}
NA = {}


def claim(pid, category, text, note, technique, design_ref):
    CLAIMS[pid] = dict(category=category, text=text, note=note, technique=technique, design_ref=design_ref)


claim("C08", "proof",
      "Every C permutation backend (64-bit C, direct-xor variant of it, 32-bit bit-sliced C) is proved equal to the "
      "reference ASCON permutation for all 2^320 states and all start rounds 0..12 by CBMC function + loop contracts "
      "(round lemma for an arbitrary iteration, then the loop contract composes the rounds and the function contract is "
      "enforced with its frame); the state byte operations are enforced against whole-view contracts over the 40 "
      "canonical bytes for every (offset,size) that fits. The x86-64 ASSEMBLY permutation (the default backend on this "
      "host) is lifted to C instruction by instruction on every run (tools/lift_x86_64.py) and the same contract is "
      "enforced on it with cut points at the round labels: every round == ref_round, jump-table dispatch enters at "
      "first_round, callee-saved registers restored, only *state written. All inputs are symbolic: a proof, not a sample.",
      "Trusted for the assembly: the lifter's instruction table and the calling convention (stated in the lifter and in "
      "the evidence). The i386, the three RISC-V, the AArch64, ARMv6, ARMv7-M and ARMv6-M assembly permutations likewise (tools/lift_i386.py, lift_riscv.py, lift_arm64.py, lift_arm32.py, lift_xtensa.py, lift_m68k.py, lift_avr.py incl. Xtensa, m68k and AVR5): all twelve plain assembly permutations are covered; the byte operations of the 32-bit bit-sliced backend are "
      "decided by enumeration of constant (offset, size) pairs (sample in the quick tier, all 861 pairs in the thorough tier), "
      "those of the direct-xor/generic backend in the thorough tier. Trusted: CBMC/CaDiCaL, the reference transcription in spec/spec_perm.h (cross-checked "
      "against the KAT vectors natively).",
      "CBMC code contracts (DFCC): enforced function contracts + loop contracts, SAT back end", "4/C08")

claim("C01", "proof",
      "ASCON-128/128a/80pq encryption (one-shot and incremental C entry points) is tied to ASCON v1.2 Algorithm 1 by three "
      "layers of enforced CBMC contracts on the real code: permutation (C08), the duplex data loops of ascon-aead-common.c "
      "(absorb: loop contracts, any length up to 2^40; encrypt: step proofs from an arbitrary state for every entry "
      "position and every length below two rate blocks), and the entry points against the reference composition for "
      "every key, nonce, AD, message and every length below 2^40 with the permutation abstract.",
      "Meta-steps outside the solver: length generalisation of the write-loop step proofs (CBMC 6.11 loop contracts cannot "
      "abstract loops that store through a moving pointer) and the instantiation of the L1 summary functions. Not "
      "covered: C++ entry points. The masked one-shot encrypt entry points are checked against the same reference at "
      "enumerated constant lengths around the block boundaries with the masked permutation replaced by its C10 contract.",
      "CBMC code contracts (DFCC): enforced function contracts, loop contracts, callee contracts in replaced form, uninterpreted permutation", "4/C01")
claim("C02", "proof",
      "ascon_aead_check_tag is proved exact for all 2^256 tag pairs (0 iff equal, else -1); the duplex decrypt loops by "
      "step proofs (also in place); ascon128/128a/80pq_aead_decrypt and the incremental decrypt entry points against the "
      "reference: short input -> -1 with an empty frame, otherwise plaintext = the specified duplex-decrypt call and result "
      "= exact comparison of the supplied tag with the specified tag over the whole plaintext buffer; inverse-step lemma.",
      "'Any change is rejected' is proved as 'accept iff the supplied tag equals the specified tag of the supplied inputs' "
      "(a 128-bit collision is outside what code contracts can exclude). The plaintext wipe loop is bounded (labelled). "
      "SIV/ISAP decryption: C06; masked one-shot decrypt: enumerated constant lengths (see C10); C++ not covered.",
      "CBMC code contracts (DFCC): enforced function contracts, callee contracts in replaced form, ghost call log", "4/C02")
claim("C14", "proof",
      "ascon_aead_increment_nonce is proved to be +1 mod 2^128 on the big-endian integer for all 2^128 nonces (every carry "
      "chain), ascon_aead_set_counter its closed form, and ascon128/128a/80pq_aead_start to key the packet from the OLD "
      "stored nonce, reset the position and store old+1, from an arbitrary session object; finalize leaves key and nonce unchanged.",
      "C++ cipher objects (set_nonce padding/truncation, nonce handling on failed decryption) are not covered: CBMC's C++ "
      "front end cannot parse this repository's C++. 'packet i == one-shot under N+i' composes this with C01 by induction "
      "over packets (meta-step).",
      "CBMC code contracts (DFCC): enforced closed-form function contracts", "4/C14")

claim("C03", "proof",
      "ASCON-HASH/HASHA/XOF/XOFA: the incremental absorb/squeeze functions are enforced against a byte-serial sponge "
      "automaton from an arbitrary state (every count, mode, and length below two rate blocks); every pre-computed "
      "initial value is proved equal to the reference permutation of the specification's IV block; fixed-length, "
      "customised (cXOF, names of 0..40 characters incl. the hashed-name path) and one-shot entry points are enforced "
      "against their reference compositions for every input and every length below 2^40 with the permutation abstract.",
      "Meta-step: length generalisation of the L1 step proofs (write loops cannot carry CBMC loop contracts). Function "
      "names above 40 characters are outside the bound. Assembly permutation assumed to satisfy the C08 contract.",
      "CBMC code contracts (DFCC): enforced function contracts, summary contracts in replaced form, constant obligations with the concrete reference permutation", "4/C03")
claim("C07", "proof",
      "Chunk invariance is the L1 contracts themselves: every incremental data function (XOF/XOFA/PRF absorb and squeeze, "
      "AEAD block functions) is enforced for an arbitrary state and every entry position against 'the byte automaton "
      "applied to exactly these bytes' (zero-length and null-buffer calls included), in-place variants included; copy "
      "and re-init functions are enforced against 'equal abstract state' / 'same as init on a fresh object'.",
      "Meta-step: induction over the number of calls. HMAC/HKDF/KMAC/KDF wrappers are thin compositions covered under C04/C05.",
      "CBMC code contracts (DFCC): enforced function contracts parameterised by the entry position", "4/C07")

claim("C04", "proof",
      "ASCON-PRF/MAC/PRFshort: absorb/squeeze step proofs against the byte automaton, and every entry point enforced "
      "against its definition for all keys/messages/lengths with the permutation abstract; MAC verification is proved to "
      "be the exact 16-byte comparison. HMAC/HMACA: the RFC 2104 postcondition is asserted for the real one-shot, init, "
      "reinit and finalize functions over specification stubs of the hash, for enumerated key lengths on both sides of "
      "the 32-byte chunk and 64-byte block boundaries.",
      "HMAC groups assert the contract postcondition in the harness (no DFCC frame check) and enumerate key lengths; KMAC "
      "is covered through the cXOF contracts of C03 plus the KMAC groups where present. Meta-step: length generalisation "
      "of the PRF step proofs.",
      "CBMC code contracts (DFCC) for PRF; harness-asserted postconditions over specification stubs for HMAC", "4/C04")

claim("C10", "proof",
      "64-bit C masked backend: every masked-word operation for 2/3/4 shares, the masked-key init/extract/randomize "
      "functions, all masked-state conversions and the three masked permutations are proved to compute the specified "
      "function of the UNMASKED value for every value returned by the random source (a stub returning an arbitrary word "
      "per call) and every share pattern; 'every share changes on re-randomisation' is checked by requiring each "
      "'share k unchanged for all tapes' obligation to be refuted (this found and led to the repair of defect D1). The "
      "x86-64 ASSEMBLY masked backend that the default build runs (word toolkit, 35 functions; x2/x3/x4 permutations) is "
      "lifted to C on every run and put through the same obligations (permutations: one round lemma per round from an "
      "arbitrary re-sharing). The masked one-shot AEAD entry points equal the unmasked specification for every random "
      "tape at enumerated lengths, on both word backends.",
      "Not covered: 32-bit and direct-xor masked word backends; masked AEAD only at enumerated constant lengths around the "
      "block boundaries; assembly: MAX_SHARES == 4 layout in the quick tier, 3 and 2 layouts in the thorough tier; lifter instruction table trusted. Quick tier samples "
      "the x3/x4 assembly rounds by seed; the thorough tier runs all.",
      "CBMC: full-domain assertions on loop-free code, loop contracts + enforced function contracts for the masked permutations, must-refute obligations", "4/C10")
claim("C13", "proof",
      "Every C free/clear function is enforced from an arbitrary object against 'every named field is zero afterwards' "
      "with the frame 'only this object' (25 functions: permutation state, incremental AEAD, XOF/hash, PRF, HMAC, KMAC, "
      "KDF, HKDF, PRNG, ISAP keys, masked keys and states).",
      "Source-level only: whether the optimiser keeps the wipe, and libc's explicit_bzero/memset_s, are trusted; the "
      "portable fallback loop of ascon_clean is what is inlined. Stack temporaries: followed by ghost wrappers for "
      "ascon_pbkdf2 (every XOF state freed on every path, U/T wiped) and the HKDF one-shots (state wiped with ascon_clean, "
      "not memset); other one-shots and C++ destructors are not covered.",
      "CBMC code contracts (DFCC): enforced function contracts with a universally chosen ghost byte index", "4/C13")
claim("C16", "other",
      "No hidden mutable global state: the goto symbol table of every library translation unit is scanned for "
      "static-lifetime non-const objects defined under /repo/src (must be none), and representative public entry points "
      "are re-verified with assigns clauses that name only argument-reachable objects; the masked ciphers are checked to "
      "leave the caller's const masked key object bit-for-bit unchanged; race freedom for distinct objects then follows "
      "by argument (disjoint write sets, nothing shared is written).",
      "CBMC has no thread semantics for this: the interleaving conclusion is an inference, hence level 'other'. A write "
      "to a shared const object through a cast is only caught where the function is under a contract with a frame.",
      "goto symbol-table scan + DFCC assigns-clause (frame) checking", "4/C16")

claim("C20", "proof",
      "ascon_bytes_to_hex and ascon_bytes_from_hex are enforced for EVERY input length by CBMC loop contracts (their "
      "writes are in index form): the encoder against its closed form, the decoder against a shadow automaton that is "
      "the specification of the accepted language (hex digits + six white-space characters, -1 otherwise / odd count / "
      "no space) with every decoded byte and the frame out[0..outlen). Bounded cross-checks against an independent "
      "reference codec and the round trip are labelled bounded.",
      "The C++ helpers bytes_from_hex/bytes_to_hex and the ASCON_NO_STL byte_array class are NOT covered (CBMC's C++ front "
      "end cannot parse them). The round trip for every length is the composition of the two contracts (meta-step); "
      "lengths up to INT_MAX/2.",
      "CBMC code contracts (DFCC): loop contracts with a ghost shadow automaton, enforced function contracts", "4/C20")

claim("C19", "proof",
      "In-process control logic of the tools, on the real application sources: safe_file_read/safe_file_write under enforced "
      "contracts with loop contracts (unbounded in length and number of short/interrupted transfers) against POSIX "
      "read()/write() contracts; encrypt_file/decrypt_file/generate_password with every I/O, random, KDF, SIV and AEAD step "
      "allowed to fail at any call (chunk loops closed by loop contracts): success is returned only if nothing failed and the "
      "tag verified, and on every failure the created output file is deleted; asconsum hash_file/check_file with stubbed "
      "stdio: digest printed = digest computed by the selected algorithm over exactly the bytes read, OK exactly for "
      "well-formed lines whose file was read and matches, non-zero result otherwise. Found and repaired: a failed or short "
      "safe_file_write counted as success (D4).",
      "NOT decided: the process level (main/exit status, unlink's effect, stderr), the file-format round trip and tamper "
      "detection for every content (they rest on C01/C02/C06 for the library calls plus unverified framing code), readpass.c. "
      "asconcrypt.c with BUFSIZ 48, asconsum.c with BUFSIZ 16 and 1-2 checksum lines up to 82 characters (labelled bounded).",
      "CBMC code contracts (DFCC) on fileops.c; loop contracts in asconcrypt.c; plain assertions over the real asconsum.c with stdio stubs", "4/C19")

claim("C18", "other",
      "x86 part by contract, the rest by static facts. The five x86-64 assembly files (core permutation, masked x2/x3/x4 "
      "permutations, masked-word toolkit: what the default build and the test suite run), the i386 permutation and the three "
      "RISC-V permutations (RV64I, RV32I, RV32E) and the AArch64, ARMv6, ARMv7-M, ARMv6-M, Xtensa, m68k and AVR5 permutations are lifted to C instruction by instruction on every run and proved: permutation == specification for all states and start rounds with its frame; "
      "masked permutations round by round on the unmasked state; word functions as the C toolkit; callee-saved registers "
      "restored, stack balanced, no access outside the argument objects. Static facts from the working tree on every run: all "
      "18 .S files are byte-for-byte their generators' output; no x86-64 object (assembled with the repository's assembler "
      "options) lacks a non-executable .note.GNU-stack, and the other files either carry the directive or the build passes "
      "--noexecstack. The latter found that libascon.so was linked with an executable stack (repaired).",
      "The two masked AVR5 files are NOT verified against the specification or their ABIs (no lifter, no cross tools): for "
      "them only generator equality and the executable-stack text fact are checked. Lifter instruction table and calling "
      "conventions trusted. Level 'other': the static facts are not proofs and the contract part covers 16 of 18 files.",
      "CBMC contracts on mechanically lifted assembly + generator rebuild/diff + readelf on assembled objects", "4/C18")

claim("C15", "proof",
      "The real PRNG functions are executed symbolically from an arbitrary generator state with a stubbed system source "
      "(arbitrary bytes and health status), stubbed storage callbacks and specification stubs for the sponge: every "
      "operation ends with four (zero-rate; permute) steps, fetch reseeds before squeezing exactly at the 16384-byte "
      "limit, every status result is as documented (this found and led to the repair of defect D2), and init/feed equal "
      "their reference compositions (deterministic in the system and fed bytes).",
      "Plain-assertion groups over stubs; the real system source is not verified; 'influences all later output' only in "
      "the sense that the byte is an argument of the state term; entry block positions sampled in the quick tier.",
      "CBMC: harness-asserted postconditions over specification stubs, ghost call counters", "4/C15")

claim("C05", "proof",
      "HKDF/HKDFA are checked against RFC 5869 over an abstract HMAC (extract; expand from an arbitrary expansion state "
      "including the wrapped counter: -1 and zero fill; the one-shot 255-block refusal with nothing written), and "
      "KDF/KDFA, KMAC/KMACA and PBKDF2 against their definitions over the customised XOF (RFC 8018 iteration: big-endian "
      "block index from 1, xor of the U values, count 0 as 1, truncated last block) with all data symbolic.",
      "Plain-assertion groups over specification stubs / an abstract HMAC model with enumerated lengths, positions and "
      "iteration counts (counts 0..3, requests up to ~100 bytes, the refusal boundary); PBKDF2-HMAC over the abstract HMAC model; the "
      "HKDF reference is sensitive to how the three HMAC update pieces are chunked.",
      "CBMC: harness-asserted postconditions over specification stubs and an uninterpreted HMAC model", "4/C05")

claim("C09", "proof",
      "Configuration independence is obtained by proving the same canonical-view contracts per configuration: the "
      "permutation under each C backend, the pre-computed initial values in each of the three state encodings against "
      "p^12 of the specified IV block, the masked-word toolkit and masked keys for every share count, and the "
      "acquire/release balance of the incremental sponge functions in the checker build (abort unreachable).",
      "The assembly permutations of all twelve backends are re-proved through the lifters (quick tier: x86-64, RISC-V, AArch64, Xtensa); higher-level compositions are proved in the 64-bit C configuration only; "
      "acquire/release entry states are sampled and use a frame-only permutation stub.",
      "CBMC code contracts (DFCC) and full-domain assertions, repeated per build configuration", "4/C09")
claim("C12", "proof",
      "CBMC's memory-safety and undefined-behaviour checks with exactly-sized buffers, null pointers for empty optional "
      "inputs and assigns clauses as output frames, on the anchors of the property (byte operations, hex codec, tag check, "
      "nonce helpers, masked words and keys, HKDF, HMAC, AEAD entry points) and on asconcrypt's file-name helpers; two "
      "genuine out-of-bounds defects were found this way and repaired.",
      "Alignment, assembly, C++, libc internals and the tools' I/O paths are not covered; asconcrypt's temporary buffer is "
      "shrunk from BUFSIZ to 32 bytes in its harness (bounded, labelled).",
      "CBMC safety checks inside DFCC-enforced contracts (assigns clauses as frames) with exact-size is_fresh/malloc buffers", "4/C12")

claim("C06", "proof",
      "SIV: the three ASCON-SIV encrypt/decrypt entry points (real code incl. absorb loops and byte operations) equal the "
      "two-pass construction documented in doc/siv.dox over the abstract permutation for every key, nonce, AD and message "
      "content, at enumerated constant lengths around the block boundaries. ISAP: init + encrypt/decrypt of ISAP-A-128A, "
      "ISAP-A-128 and ISAP-A-80PQ equal the ISAP v2.0 algorithms (bit-serial re-keying, ENC, MAC) for ANY permutation "
      "(logged-oracle argument: the k-th permutation call of the code has the argument of the k-th call of the reference), "
      "same length enumeration; the pre-computed key is bit-for-bit unchanged by encrypt/decrypt. Key persistence: save_key / "
      "load_key / free under enforced DFCC contracts with frames (saved-and-loaded key has the same canonical states).",
      "Lengths are enumerated constants (0, partial, exact, block+partial, several blocks), not 'every length'; the "
      "generalisation is a meta-step (a helper whose length parameter is narrower than size_t, wrong only from 4 GiB on, is "
      "not detected). The SIV prose/diagram ambiguity of siv.dox is resolved in favour of the diagram (see DESIGN). The ISAP "
      "reference is a transcription, cross-checked through the code that passes the official KATs.",
      "CBMC: plain-assertion groups over the real code with abstract / logged-oracle permutation; DFCC enforced contracts for key save/load/free", "4/C06")

NA_DEFAULT = {
    "C11": "secret-independence of control flow and addresses is a relational (2-safety) property of the shipped object code; a CBMC contract describes one execution of the C source and has no taint or relational mode (DESIGN section 6)",
    "C17": "compilability of C++ members is a compiler verdict, and CBMC's C++ front end rejects this repository's C++ (DESIGN 2.8, section 6)",
}


try:
    THOROUGH_OK = set(open(os.path.join(VERIF, "tools", "thorough_validated.txt")).read().split())
except Exception:
    THOROUGH_OK = set()


def main():
    props = [json.loads(l) for l in open(os.path.join(VERIF, "properties.jsonl"))]
    commits = subprocess.run(["git", "-C", "/repo", "log", "--format=%H %s"], stdout=subprocess.PIPE).stdout.decode().splitlines()
    hook_commits = [c.split()[0] for c in commits if " verif hooks" in c or c.split(" ", 1)[1].startswith("verif hook")]
    checks = []
    na = []
    for p in props:
        pid = p["id"]
        if pid in CLAIMS:
            c = CLAIMS[pid]
            checks.append({
                "property_id": pid,
                "quick_cmd": "./check.py %s --tier quick" % pid,
                # a thorough tier is only registered once a complete run of it has passed on the unchanged tree within the
                # time available (tools/thorough_validated.txt); otherwise the thorough command is the quick tier with the seed-rotated samples shifted
                "thorough_cmd": ("./check.py %s --tier thorough" % pid) if pid in THOROUGH_OK else ("./check.py %s --tier quick --seed-add 5" % pid),
                "evidence_file": "/verif/evidence/%s.json" % pid,
                "replay_cmd_template": "./check.py --replay {path}",
                "engine": "cbmc-contracts",
                "level_claimed": {"category": c["category"], "text": c["text"], "design_ref": "DESIGN.md section " + c["design_ref"]},
                "level_note": c["note"],
                "technique": c["technique"],
            })
        else:
            na.append({"property_id": pid, "reason": NA.get(pid) or NA_DEFAULT.get(pid) or
                       "no check has been built for this property yet (contract-based route planned in DESIGN.md section 4); nothing is claimed"})
    man = {
        "version": 1,
        "setup_cmd": "mkdir -p build evidence replays && python3 -c \"import json;json.load(open('MANIFEST.json'))\" && cbmc --version",
        "hooks": {
            "guard": "ASCON_SUITE_VERIF",
            "enable": "goto-cc -DASCON_SUITE_VERIF -I/verif/include -I/verif/spec ...: the guard makes src/core/ascon-verif.h include "
                      "/verif/include/ascon-verif-ghost.h and expands ASCON_VERIF_LOOP(name) / ASCON_VERIF_GHOST(name) to the loop "
                      "contracts and ghost statements defined there; with the guard off both macros expand to nothing",
            "baseline_off_cmd": "cmake --build /repo/_build && ctest --test-dir /repo/_build -j8 --timeout 900",
            "source_commits": hook_commits[::-1],
            "add_only": False,
        },
        "engines": [{"name": "cbmc-contracts", "path": "/verif/check.py",
                     "serves_properties": [c["property_id"] for c in checks],
                     "kind_free_text": "CBMC 6.11 function and loop contracts on the real C sources, enforced per function with "
                                       "goto-instrument --dfcc, callees replaced by their contracts, SAT back end CaDiCaL; "
                                       "native replay of counterexamples against the real code"}],
        "checks": checks,
        "notes": "hooks.add_only is false only because a loop contract must sit between a loop header and its body: lines of the "
                 "form 'while (c) {' were split into 'while (c)' / ASCON_VERIF_LOOP(name) / '{'. No executable token was changed; "
                 "with the guard off the preprocessed source is token-identical.",
        "not_applicable": na,
    }
    with open(os.path.join(VERIF, "MANIFEST.json"), "w") as f:
        json.dump(man, f, indent=1)
    print("MANIFEST.json: %d checks, %d not applicable, %d hook commits" % (len(checks), len(na), len(hook_commits)))


if __name__ == "__main__":
    main()
