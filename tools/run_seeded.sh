#!/bin/bash
# run_seeded.sh <seed-id> <property> [tier]: apply /verif/seeded/<seed-id>/patch.diff to /repo, run the check, undo.
set -u
S=$1; P=$2; T=${3:-quick}
cd /repo || exit 2
if ! git diff --quiet; then echo "/repo has uncommitted changes; refusing"; exit 2; fi
git apply /verif/seeded/$S/patch.diff 2>/dev/null || { git apply -3 /verif/seeded/$S/patch.diff >/dev/null 2>&1 && git reset -q; } || { echo "patch does not apply"; git reset -q --hard HEAD; exit 2; }
cd /verif
VERIF_EVIDENCE_DIR=/tmp/seeded_evidence ./check.py $P --tier $T > /tmp/seeded_${S}_$P.log 2>&1
rc=$?
git -C /repo checkout -- .
echo "$S vs $P ($T): exit $rc  $(grep -c '^VIOLATION' /tmp/seeded_${S}_$P.log) violation line(s)"
grep "^VIOLATION\|failed obligation\|UNDECIDED" /tmp/seeded_${S}_$P.log | head -6
exit $rc
