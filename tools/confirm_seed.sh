#!/bin/bash
# confirm_seed.sh <property> <k> <mutant-dir> : confirm a sub-agent's mutant in a fresh scratch worktree and
# store it as /verif/seeded/<property>-m<k>/ (patch.diff, demo, run.sh, notes.md, meta.json)
set -u
P=$1; K=$2; M=$3
WT=/tmp/confirm_${P}_$K
git -C /repo worktree remove --force $WT >/dev/null 2>&1
git -C /repo worktree add -q $WT HEAD || exit 2
res() { echo "$P-m$K: $1"; git -C /repo worktree remove --force $WT; exit $2; }
cd $WT
bash $M/run.sh $WT >/tmp/confirm_${P}_$K.clean.log 2>&1; c0=$?
[ $c0 -eq 0 ] || res "demo does not pass on the clean tree (rc=$c0)" 1
git apply $M/patch.diff || res "patch does not apply" 1
cmake -G Ninja -S $WT -B $WT/_b >/dev/null 2>&1 && cmake --build $WT/_b >/dev/null 2>&1 || res "does not build with the patch" 1
T=$(ctest --test-dir $WT/_b -j8 --timeout 900 2>&1 | grep "tests passed" )
echo "$T" | grep -q "100% tests passed, 0 tests failed out of 114" || res "tests do not all pass: $T" 1
bash $M/run.sh $WT >/tmp/confirm_${P}_$K.mut.log 2>&1; c1=$?
[ $c1 -ne 0 ] || res "demo does not fail on the mutated tree" 1
D=/verif/seeded/$P-m$K
mkdir -p $D; cp $M/patch.diff $M/run.sh $M/notes.md $D/; cp $M/demo.* $D/ 2>/dev/null
python3 - "$P" "$K" "$D" "$T" "$c1" <<'PY'
import json,sys
p,k,d,t,c1=sys.argv[1:]
notes=open(d+'/notes.md').read()
json.dump({"property":p,"id":"%s-m%s"%(p,k),"files":[l.split()[-1][2:] for l in open(d+'/patch.diff') if l.startswith('+++ ')],
 "needs_to_manifest":"see notes.md","confirmed":{"clean_tree_demo_rc":0,"tests_with_patch":t.strip(),"mutated_tree_demo_rc":int(c1),
 "how":"tools/confirm_seed.sh: fresh scratch worktree of /repo HEAD; run.sh on clean tree; git apply; cmake+ninja build; ctest 114/114; run.sh on mutated tree; worktree removed"},
 "detected_by":None},open(d+'/meta.json','w'),indent=1)
PY
res "CONFIRMED (clean rc=0, tests 114/114, mutated rc=$c1)" 0
