/* L2 contracts (enforced) of the one-shot AEAD entry points
 * ascon{128,128a,80pq}_aead_{encrypt,decrypt} against ASCON v1.2 Algorithm 1.
 * The harness owns the buffers (exactly sized) and has evaluated the reference
 * composition (spec/spec_aead.h over the abstract permutation and the L1
 * summaries) into ghost objects before the call:
 *   verif_exp_in      canonical state at the start of the payload phase
 *   verif_exp_tag     the specified tag
 * -DVERIF_L2_FN=<entry point> -DVERIF_L2_RATE / _ROUND select the variant. */
#ifndef C_AEAD_L2_H
#define C_AEAD_L2_H
#include <ascon/aead.h>
#include "c_aead_l1_summary.h"

extern spec_state verif_exp_in;
extern uint8_t verif_exp_tag[16];
extern int verif_exp_result;

#define LOG_IS(TAG, SRC, DEST, LEN) \
    (verif_crypt_log.count == 1 && verif_crypt_log.tag == (TAG) && verif_crypt_log.src == (SRC) && \
     verif_crypt_log.dest == (DEST) && verif_crypt_log.len == (LEN) && \
     verif_crypt_log.first_round == VERIF_L2_ROUND && verif_crypt_log.partial == 0 && \
     verif_crypt_log.in[0] == verif_exp_in.x[0] && verif_crypt_log.in[1] == verif_exp_in.x[1] && \
     verif_crypt_log.in[2] == verif_exp_in.x[2] && verif_crypt_log.in[3] == verif_exp_in.x[3] && \
     verif_crypt_log.in[4] == verif_exp_in.x[4])
#define TAG_AT(p) \
    ((p)[0] == verif_exp_tag[0] && (p)[1] == verif_exp_tag[1] && (p)[2] == verif_exp_tag[2] && (p)[3] == verif_exp_tag[3] && \
     (p)[4] == verif_exp_tag[4] && (p)[5] == verif_exp_tag[5] && (p)[6] == verif_exp_tag[6] && (p)[7] == verif_exp_tag[7] && \
     (p)[8] == verif_exp_tag[8] && (p)[9] == verif_exp_tag[9] && (p)[10] == verif_exp_tag[10] && (p)[11] == verif_exp_tag[11] && \
     (p)[12] == verif_exp_tag[12] && (p)[13] == verif_exp_tag[13] && (p)[14] == verif_exp_tag[14] && (p)[15] == verif_exp_tag[15])

#if defined(VERIF_L2_ENCRYPT)
void VERIF_L2_FN(unsigned char *c, size_t *clen, const unsigned char *m, size_t mlen,
                 const unsigned char *ad, size_t adlen, const unsigned char *npub, const unsigned char *k)
__CPROVER_assigns(*clen, verif_crypt_log, __CPROVER_object_upto(c, mlen + 16))
/* reported length */
__CPROVER_ensures(*clen == mlen + 16)
/* c[0..mlen) is the output of exactly one duplex-encrypt call: on m, mlen bytes, from the
 * specified state (IV||K||N, p^a, key, AD with padding, separator), p^b, position 0 */
__CPROVER_ensures(LOG_IS(SPEC_TAG_ENCRYPT(VERIF_L2_RATE), m, c, mlen))
/* the 16 bytes after it are the specified tag */
__CPROVER_ensures(TAG_AT(c + mlen));
#endif

#if defined(VERIF_L2_DECRYPT)
/* the replaced contract of ascon_aead_check_tag used here: exact result, frame */
int ascon_aead_check_tag(unsigned char *plaintext, size_t plaintext_len,
                         const unsigned char *tag1, const unsigned char *tag2, size_t size)
__CPROVER_requires(size == 16 && plaintext_len <= VERIF_MAX_LEN)
__CPROVER_requires(__CPROVER_r_ok(tag1, 16) && __CPROVER_r_ok(tag2, 16))
__CPROVER_requires((plaintext_len == 0) || __CPROVER_w_ok(plaintext, plaintext_len))
__CPROVER_assigns(plaintext_len > 0: __CPROVER_object_upto(plaintext, plaintext_len); verif_check_log)
__CPROVER_ensures(__CPROVER_return_value == ((tag1[0] == tag2[0] && tag1[1] == tag2[1] && tag1[2] == tag2[2] && tag1[3] == tag2[3] &&
    tag1[4] == tag2[4] && tag1[5] == tag2[5] && tag1[6] == tag2[6] && tag1[7] == tag2[7] && tag1[8] == tag2[8] && tag1[9] == tag2[9] &&
    tag1[10] == tag2[10] && tag1[11] == tag2[11] && tag1[12] == tag2[12] && tag1[13] == tag2[13] && tag1[14] == tag2[14] &&
    tag1[15] == tag2[15]) ? 0 : -1))
__CPROVER_ensures(verif_check_log.count == __CPROVER_old(verif_check_log.count) + 1 &&
                  verif_check_log.plaintext == plaintext && verif_check_log.len == plaintext_len &&
                  verif_check_log.result == __CPROVER_return_value);

int VERIF_L2_FN(unsigned char *m, size_t *mlen, const unsigned char *c, size_t clen,
                const unsigned char *ad, size_t adlen, const unsigned char *npub, const unsigned char *k)
/* inputs shorter than the tag: failure and an EMPTY frame (not even *mlen) */
__CPROVER_assigns(clen >= 16: *mlen, verif_crypt_log, verif_check_log)
__CPROVER_assigns(clen > 16: __CPROVER_object_upto(m, clen - 16))
__CPROVER_ensures(clen >= 16 || __CPROVER_return_value == -1)
__CPROVER_ensures(clen < 16 || *mlen == clen - 16)
/* m[0..mlen) is produced by exactly one duplex-decrypt call on c, from the specified state */
__CPROVER_ensures(clen < 16 || LOG_IS(SPEC_TAG_DECRYPT(VERIF_L2_RATE), c, m, clen - 16))
/* the result is the exact tag comparison (0 iff the supplied tag equals the specified tag of
 * the supplied inputs, else -1), applied to the WHOLE plaintext buffer (wiped on mismatch) */
__CPROVER_ensures(clen < 16 || (verif_check_log.count == 1 && verif_check_log.plaintext == m &&
                                verif_check_log.len == clen - 16 && verif_check_log.result == __CPROVER_return_value))
__CPROVER_ensures(clen < 16 || __CPROVER_return_value == (TAG_AT(c + (clen - 16)) ? 0 : -1));
#endif

#endif
