/* Summary faces (REPLACED form) of the L1 functions of ascon-aead-common.c for
 * the L2 composition proofs (DESIGN 3.2):
 *   state' == U_f(canon(state), buffer identity, len, rounds, flag)   (uninterpreted)
 *   returned position == (partial + len) mod rate                    (proved at L1)
 *   the call is recorded in the ghost call log (which buffer, which length,
 *   which entry state) so that the L2 contract can say "dest[0..len) is the
 *   output of exactly this duplex call"
 *   frame: *state, dest[0..len), the ghost log.
 * Preconditions (asserted at each call site): valid state, readable src/data
 * of len bytes, writable dest of len bytes, round number and position in range. */
#ifndef C_AEAD_L1_SUMMARY_H
#define C_AEAD_L1_SUMMARY_H
#include <ascon/permutation.h>
#include "verif_canon.h"
#include "spec_aead.h"

typedef struct {
    unsigned count;          /* number of encrypt/decrypt calls so far */
    unsigned tag;            /* which function */
    uint64_t in[5];          /* canonical entry state */
    const void *src;
    void *dest;
    size_t len;
    unsigned first_round, partial;
} verif_crypt_log_t;
extern verif_crypt_log_t verif_crypt_log;
typedef struct { unsigned count; unsigned char *plaintext; size_t len; int result; } verif_check_log_t;
extern verif_check_log_t verif_check_log;

#define VERIF_MAX_LEN ((size_t)1 << 40)
#define L1_OLD(k, tag, st, buf, len, misc) SPEC_L1W(k, tag, CANON_W_OLD(st, 0), CANON_W_OLD(st, 1), CANON_W_OLD(st, 2), \
                                                    CANON_W_OLD(st, 3), CANON_W_OLD(st, 4), buf, len, misc)
#define L1_STATE_ENSURES(tag, buf, len, misc) \
__CPROVER_ensures(CANON_W(state, 0) == L1_OLD(0, tag, state, buf, len, misc)) \
__CPROVER_ensures(CANON_W(state, 1) == L1_OLD(1, tag, state, buf, len, misc)) \
__CPROVER_ensures(CANON_W(state, 2) == L1_OLD(2, tag, state, buf, len, misc)) \
__CPROVER_ensures(CANON_W(state, 3) == L1_OLD(3, tag, state, buf, len, misc)) \
__CPROVER_ensures(CANON_W(state, 4) == L1_OLD(4, tag, state, buf, len, misc))

#define ABSORB_SUMMARY(R) \
__CPROVER_requires(first_round <= 12 && len <= VERIF_MAX_LEN) \
__CPROVER_requires(__CPROVER_rw_ok(state, sizeof(ascon_state_t))) \
__CPROVER_requires(__CPROVER_r_ok(data, len)) \
__CPROVER_assigns(*state) \
L1_STATE_ENSURES(SPEC_TAG_ABSORB(R), data, len, SPEC_L1_MISC(first_round, last_permute != 0))

void ascon_aead_absorb_8(ascon_state_t *state, const unsigned char *data, size_t len, uint8_t first_round, int last_permute)
ABSORB_SUMMARY(8);
void ascon_aead_absorb_16(ascon_state_t *state, const unsigned char *data, size_t len, uint8_t first_round, int last_permute)
ABSORB_SUMMARY(16);

#define CRYPT_SUMMARY(TAG, R) \
__CPROVER_requires(first_round <= 12 && partial < (R) && len <= VERIF_MAX_LEN) \
__CPROVER_requires(__CPROVER_rw_ok(state, sizeof(ascon_state_t))) \
__CPROVER_requires(len == 0 || (__CPROVER_r_ok(src, len) && __CPROVER_w_ok(dest, len))) \
__CPROVER_assigns(*state, verif_crypt_log) \
__CPROVER_assigns(len > 0: __CPROVER_object_upto(dest, len)) \
L1_STATE_ENSURES(TAG, src, len, SPEC_L1_MISC(first_round, partial)) \
__CPROVER_ensures(__CPROVER_return_value == (unsigned char)((partial + len) % (R))) \
__CPROVER_ensures(verif_crypt_log.count == __CPROVER_old(verif_crypt_log.count) + 1 && verif_crypt_log.tag == (TAG)) \
__CPROVER_ensures(verif_crypt_log.in[0] == CANON_W_OLD(state, 0) && verif_crypt_log.in[1] == CANON_W_OLD(state, 1) && \
                  verif_crypt_log.in[2] == CANON_W_OLD(state, 2) && verif_crypt_log.in[3] == CANON_W_OLD(state, 3) && \
                  verif_crypt_log.in[4] == CANON_W_OLD(state, 4)) \
__CPROVER_ensures(verif_crypt_log.src == src && verif_crypt_log.dest == dest && verif_crypt_log.len == len && \
                  verif_crypt_log.first_round == first_round && verif_crypt_log.partial == partial)

unsigned char ascon_aead_encrypt_8(ascon_state_t *state, unsigned char *dest, const unsigned char *src,
                                   size_t len, uint8_t first_round, unsigned char partial) CRYPT_SUMMARY(3u, 8);
unsigned char ascon_aead_encrypt_16(ascon_state_t *state, unsigned char *dest, const unsigned char *src,
                                    size_t len, uint8_t first_round, unsigned char partial) CRYPT_SUMMARY(4u, 16);
unsigned char ascon_aead_decrypt_8(ascon_state_t *state, unsigned char *dest, const unsigned char *src,
                                   size_t len, uint8_t first_round, unsigned char partial) CRYPT_SUMMARY(5u, 8);
unsigned char ascon_aead_decrypt_16(ascon_state_t *state, unsigned char *dest, const unsigned char *src,
                                    size_t len, uint8_t first_round, unsigned char partial) CRYPT_SUMMARY(6u, 16);
#endif
