/* C13: contracts (enforced) of the free / clear functions: afterwards every
 * named field of the object is zero - a constant, hence independent of every
 * key, message and internal state it held.  Ghost index verif_i: any byte
 * index, so ZB(p, n) states "all n bytes at p are zero".  Padding bytes of the
 * sponge-style structs (after count/mode) are never written by the library and
 * hold no data; the functions that wipe sizeof(object) are checked for every byte. */
#ifndef C_FREE_H
#define C_FREE_H
#include <ascon/aead.h>
#include <ascon/xof.h>
#include <ascon/hash.h>
#include <ascon/prf.h>
#include <ascon/hmac.h>
#include <ascon/kmac.h>
#include <ascon/kdf.h>
#include <ascon/hkdf.h>
#include <ascon/random.h>
#include <ascon/isap.h>
#include <ascon/masking.h>
#include <ascon/utility.h>
#if defined(VERIF_FREE_MASKED)
#include "masking/ascon-masked-state.h"
#endif
extern size_t verif_i;
#define ZB(p, n) (!(verif_i < (n)) || ((const unsigned char *)(p))[verif_i] == 0)
#define ZX(x) (ZB(&(x)->state, sizeof(ascon_state_t)) && (x)->count == 0 && (x)->mode == 0)

#if defined(VERIF_FREE_CLEAN)
void ascon_clean(void *buf, unsigned size)
__CPROVER_requires(size <= VERIF_CLEAN_MAX && __CPROVER_is_fresh(buf, size))
__CPROVER_assigns(size > 0: __CPROVER_object_upto(buf, size))
__CPROVER_ensures(ZB(buf, size));
#else
void VERIF_FN(VERIF_T *state)
__CPROVER_assigns(*state)
__CPROVER_ensures(VERIF_ZERO_EXPR);
#endif
#endif
