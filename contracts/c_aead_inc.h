/* L2 contracts (enforced) of the incremental AEAD API
 * ascon{128,128a,80pq}_aead_{init,reinit,start,encrypt_block,encrypt_finalize,
 * decrypt_block,decrypt_finalize} (C01, C02, C07, C14).  The harness owns the
 * session object and the buffers and has evaluated the reference into ghost
 * objects before the call:
 *   verif_exp_state  specified canonical permutation state after the call
 *   verif_exp_nonce  specified stored nonce after the call (old nonce + 1 for start)
 *   verif_exp_key    specified stored key after the call
 *   verif_exp_posn   specified block position after the call
 *   verif_exp_tag    specified tag (finalize)
 * Selected by -DVERIF_INC_<OP>, -DVERIF_T=<state type>, -DVERIF_F(op)=name. */
#ifndef C_AEAD_INC_H
#define C_AEAD_INC_H
#include <ascon/aead.h>
#include "c_aead_l1_summary.h"

extern spec_state verif_exp_state;
extern spec_state verif_exp_in;
extern unsigned char verif_exp_nonce[16];
extern unsigned char verif_exp_key[20];
extern unsigned verif_exp_posn;
extern uint8_t verif_exp_tag[16];
extern unsigned verif_exp_in_posn;

#define ST_IS_EXP \
    (CANON_W(&state->state, 0) == verif_exp_state.x[0] && CANON_W(&state->state, 1) == verif_exp_state.x[1] && \
     CANON_W(&state->state, 2) == verif_exp_state.x[2] && CANON_W(&state->state, 3) == verif_exp_state.x[3] && \
     CANON_W(&state->state, 4) == verif_exp_state.x[4])
#define EQ16(a, b) ((a)[0] == (b)[0] && (a)[1] == (b)[1] && (a)[2] == (b)[2] && (a)[3] == (b)[3] && (a)[4] == (b)[4] && \
    (a)[5] == (b)[5] && (a)[6] == (b)[6] && (a)[7] == (b)[7] && (a)[8] == (b)[8] && (a)[9] == (b)[9] && (a)[10] == (b)[10] && \
    (a)[11] == (b)[11] && (a)[12] == (b)[12] && (a)[13] == (b)[13] && (a)[14] == (b)[14] && (a)[15] == (b)[15])
#if VERIF_KEYLEN == 20
#define KEY_IS_EXP (EQ16(state->key, verif_exp_key) && state->key[16] == verif_exp_key[16] && state->key[17] == verif_exp_key[17] && \
                    state->key[18] == verif_exp_key[18] && state->key[19] == verif_exp_key[19])
#else
#define KEY_IS_EXP EQ16(state->key, verif_exp_key)
#endif
#define SESSION_IS_EXP (KEY_IS_EXP && EQ16(state->nonce, verif_exp_nonce) && state->posn == verif_exp_posn)
#define INC_LOG_IS(TAG, SRC, DEST, LEN, POS) \
    (verif_crypt_log.count == 1 && verif_crypt_log.tag == (TAG) && verif_crypt_log.src == (SRC) && \
     verif_crypt_log.dest == (DEST) && verif_crypt_log.len == (LEN) && \
     verif_crypt_log.first_round == VERIF_ROUND && verif_crypt_log.partial == (POS) && \
     verif_crypt_log.in[0] == verif_exp_in.x[0] && verif_crypt_log.in[1] == verif_exp_in.x[1] && \
     verif_crypt_log.in[2] == verif_exp_in.x[2] && verif_crypt_log.in[3] == verif_exp_in.x[3] && \
     verif_crypt_log.in[4] == verif_exp_in.x[4])

#if defined(VERIF_INC_init) || defined(VERIF_INC_reinit)
/* key := k (all-zero if k is null), nonce := npub (all-zero if null), position 0;
 * init also zeroes the permutation state */
void VERIF_FN(VERIF_T *state, const unsigned char *npub, const unsigned char *k)
__CPROVER_assigns(*state)
__CPROVER_ensures(SESSION_IS_EXP)
#if defined(VERIF_INC_init)
__CPROVER_ensures(ST_IS_EXP)
#endif
;
#endif

#if defined(VERIF_INC_start)
/* permutation state := Algorithm 1 up to the separator, from the OLD stored nonce;
 * stored nonce := old + 1 (mod 2^128, big-endian); position 0; key unchanged */
void VERIF_FN(VERIF_T *state, const unsigned char *ad, size_t adlen)
__CPROVER_assigns(*state)
__CPROVER_ensures(ST_IS_EXP)
__CPROVER_ensures(SESSION_IS_EXP);
#endif

#if defined(VERIF_INC_encrypt_block) || defined(VERIF_INC_decrypt_block)
/* exactly one duplex call on (in, out, len) from the current state at the current
 * position; position := (position + len) mod rate; key and nonce unchanged */
void VERIF_FN(VERIF_T *state, const unsigned char *in, unsigned char *out, size_t len)
__CPROVER_assigns(*state, verif_crypt_log)
__CPROVER_assigns(len > 0: __CPROVER_object_upto(out, len))
__CPROVER_ensures(INC_LOG_IS(VERIF_CRYPT_TAG, in, out, len, verif_exp_in_posn))
__CPROVER_ensures(ST_IS_EXP)
__CPROVER_ensures(SESSION_IS_EXP);
#endif

#if defined(VERIF_INC_encrypt_finalize)
/* tag := Algorithm 1 finalization of the current state, padding at the current position */
void VERIF_FN(VERIF_T *state, unsigned char *tag)
__CPROVER_assigns(*state, __CPROVER_object_upto(tag, 16))
__CPROVER_ensures(EQ16(tag, verif_exp_tag))
__CPROVER_ensures(KEY_IS_EXP && EQ16(state->nonce, verif_exp_nonce));
#endif

#if defined(VERIF_INC_decrypt_finalize)
/* 0 iff the supplied tag equals the specified tag, else -1 */
int VERIF_FN(VERIF_T *state, const unsigned char *tag)
__CPROVER_assigns(*state)
__CPROVER_ensures(__CPROVER_return_value == (EQ16(tag, verif_exp_tag) ? 0 : -1))
__CPROVER_ensures(KEY_IS_EXP && EQ16(state->nonce, verif_exp_nonce));
#endif

#endif
