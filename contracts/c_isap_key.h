/* C06 (key persistence part): contracts (enforced) of the ISAP pre-computed key
 * functions save_key / load_key for the three variants.  save_key writes the 80
 * bytes canon(ke) || canon(ka) and leaves the key object untouched (it is not in
 * the assigns clause: any store to it fails); load_key makes canon(ke), canon(ka)
 * those 80 bytes; hence load(save(pk)) has the same canonical key states as pk
 * (two-line lemma over the two contracts) and behaves identically. */
#ifndef C_ISAP_KEY_H
#define C_ISAP_KEY_H
#include <ascon/isap.h>
#include "verif_canon.h"
extern size_t verif_i;      /* ghost: any byte index 0..39 */
#if defined(VERIF_ISAP_save_key)
void VERIF_FN(VERIF_T *pk, unsigned char k[ASCON_ISAP_SAVED_KEY_SIZE])
__CPROVER_requires(__CPROVER_is_fresh(pk, sizeof(VERIF_T)) && __CPROVER_is_fresh(k, ASCON_ISAP_SAVED_KEY_SIZE) && verif_i < 40)
__CPROVER_assigns(__CPROVER_object_upto(k, ASCON_ISAP_SAVED_KEY_SIZE))
__CPROVER_ensures(k[verif_i] == CANON_B(&pk->ke, verif_i) && k[40 + verif_i] == CANON_B(&pk->ka, verif_i))
__CPROVER_ensures(CANON_B(&pk->ke, verif_i) == CANON_B_OLD(&pk->ke, verif_i) && CANON_B(&pk->ka, verif_i) == CANON_B_OLD(&pk->ka, verif_i));
#endif
#if defined(VERIF_ISAP_load_key)
void VERIF_FN(VERIF_T *pk, const unsigned char k[ASCON_ISAP_SAVED_KEY_SIZE])
__CPROVER_requires(__CPROVER_is_fresh(pk, sizeof(VERIF_T)) && __CPROVER_is_fresh(k, ASCON_ISAP_SAVED_KEY_SIZE) && verif_i < 40)
__CPROVER_assigns(*pk)
__CPROVER_ensures(CANON_B(&pk->ke, verif_i) == k[verif_i] && CANON_B(&pk->ka, verif_i) == k[40 + verif_i]);
#endif
#endif
