/* L1 contracts (enforced) of ascon_xof_absorb/squeeze, ascon_xofa_absorb/squeeze
 * and ascon_prf_absorb/squeeze: from an ARBITRARY permutation state, with the
 * entry (count, mode) and the length fixed per obligation group (the groups
 * cover every count, both modes and every length below the bound), the
 * function leaves (state, count, mode) and every output byte exactly as the
 * byte-serial automaton of spec/spec_xof.h; frame: *state and out[0..len).
 * The harness owns the buffers and has run the automaton into ghost objects. */
#ifndef C_SPONGE_L1_H
#define C_SPONGE_L1_H
#include <ascon/xof.h>
#include <ascon/prf.h>
#include "verif_canon.h"
#include "spec_xof.h"

extern spec_sponge verif_exp;
extern unsigned char verif_exp_out[VERIF_LEN_BOUND];
extern size_t verif_i;

#define SPONGE_POST \
__CPROVER_ensures(CANON_W(&state->state, 0) == verif_exp.s.x[0] && CANON_W(&state->state, 1) == verif_exp.s.x[1] && \
                  CANON_W(&state->state, 2) == verif_exp.s.x[2] && CANON_W(&state->state, 3) == verif_exp.s.x[3] && \
                  CANON_W(&state->state, 4) == verif_exp.s.x[4]) \
__CPROVER_ensures(state->count == verif_exp.count && state->mode == verif_exp.mode)

#if defined(VERIF_SPONGE_ABSORB)
void VERIF_FN(VERIF_T *state, const unsigned char *in, size_t inlen)
__CPROVER_assigns(*state)
SPONGE_POST;
#else
void VERIF_FN(VERIF_T *state, unsigned char *out, size_t outlen)
__CPROVER_assigns(*state)
__CPROVER_assigns(outlen > 0: __CPROVER_object_upto(out, outlen))
SPONGE_POST
__CPROVER_ensures(!(verif_i < outlen) || out[verif_i] == verif_exp_out[verif_i]);
#endif
#endif
