/* ascon_permute in REPLACED form for everything above C08: the canonical
 * state after the call is spec_P(canonical state before, first_round), where
 * spec_P is uninterpreted (spec/spec_sponge.h).  C08 enforces the concrete
 * version of this contract (spec_P := ref_permute) on every C backend.
 * Frame: exactly the 40 bytes of *state. */
#ifndef C_PERMUTE_ABSTRACT_H
#define C_PERMUTE_ABSTRACT_H
#include <ascon/permutation.h>
#include "verif_canon.h"
#include "spec_sponge.h"

#define VERIF_P_OLD(k, st, r) __CPROVER_uninterpreted_P##k(CANON_W_OLD(st, 0), CANON_W_OLD(st, 1), CANON_W_OLD(st, 2), \
                                                          CANON_W_OLD(st, 3), CANON_W_OLD(st, 4), (unsigned)(r))

void ascon_permute(ascon_state_t *state, uint8_t first_round)
__CPROVER_requires(first_round <= 12)
__CPROVER_requires(__CPROVER_rw_ok(state, sizeof(ascon_state_t)))
__CPROVER_assigns(*state)
__CPROVER_ensures(CANON_W(state, 0) == VERIF_P_OLD(0, state, first_round))
__CPROVER_ensures(CANON_W(state, 1) == VERIF_P_OLD(1, state, first_round))
__CPROVER_ensures(CANON_W(state, 2) == VERIF_P_OLD(2, state, first_round))
__CPROVER_ensures(CANON_W(state, 3) == VERIF_P_OLD(3, state, first_round))
__CPROVER_ensures(CANON_W(state, 4) == VERIF_P_OLD(4, state, first_round));

#endif
