/* Summary faces (REPLACED form) of the sponge L1 functions for L2 compositions:
 * ascon_{xof,xofa,prf}_{absorb,squeeze}.
 *   canon(state') == U(tag, canon(state), buffer identity, len, count | mode<<8)   (uninterpreted)
 *   count', mode'  structural closed form (what the L1 contracts prove for every entry state)
 *   squeeze: when len == 32 the 32 output bytes are the big-endian bytes of the
 *            four uninterpreted words SQ(tag, canon(state), count|mode<<8, j), j = 0..3 (len == 16: the first two)
 *            (the fixed-size digests that callers post-process); every squeeze call is
 *            recorded in the ghost log (buffer, length, entry state)
 * frame: *state, out[0..len), the ghost log. */
#ifndef C_SPONGE_SUMMARY_H
#define C_SPONGE_SUMMARY_H
#include <ascon/xof.h>
#include <ascon/prf.h>
#include "verif_canon.h"
#include "spec_aead.h"      /* the generic L1 uninterpreted words */

#define SP_TAG_XOF_ABSORB 11u
#define SP_TAG_XOF_SQUEEZE 12u
#define SP_TAG_XOFA_ABSORB 13u
#define SP_TAG_XOFA_SQUEEZE 14u
#define SP_TAG_PRF_ABSORB 15u
#define SP_TAG_PRF_SQUEEZE 16u

uint64_t __CPROVER_uninterpreted_SQ(uint64_t, uint64_t, uint64_t, uint64_t, uint64_t, uint64_t, uint64_t, uint64_t);
#define SP_SQW(tag, a0, a1, a2, a3, a4, cm, j) \
    __CPROVER_uninterpreted_SQ((uint64_t)(tag), (a0), (a1), (a2), (a3), (a4), (uint64_t)(cm), (uint64_t)(j))
#define SP_CM(count, mode) ((uint64_t)(count) | ((uint64_t)((mode) != 0) << 8))

typedef struct {
    unsigned count; unsigned tag; uint64_t in[5]; unsigned char in_count, in_mode;
    const void *buf; size_t len;
} verif_sponge_log_t;
extern verif_sponge_log_t verif_squeeze_log;
extern verif_sponge_log_t verif_absorb_log;

#define SP_MAX_LEN ((size_t)1 << 40)
#define SP_OLDW(st) CANON_W_OLD(&(st)->state, 0), CANON_W_OLD(&(st)->state, 1), CANON_W_OLD(&(st)->state, 2), \
                    CANON_W_OLD(&(st)->state, 3), CANON_W_OLD(&(st)->state, 4)
#define SP_STATE_ENSURES(tag, buf, len) \
__CPROVER_ensures(CANON_W(&state->state, 0) == __CPROVER_uninterpreted_L1_0((uint64_t)(tag), SP_OLDW(state), (uint64_t)(buf), (uint64_t)(len), SP_CM(__CPROVER_old(state->count), __CPROVER_old(state->mode)))) \
__CPROVER_ensures(CANON_W(&state->state, 1) == __CPROVER_uninterpreted_L1_1((uint64_t)(tag), SP_OLDW(state), (uint64_t)(buf), (uint64_t)(len), SP_CM(__CPROVER_old(state->count), __CPROVER_old(state->mode)))) \
__CPROVER_ensures(CANON_W(&state->state, 2) == __CPROVER_uninterpreted_L1_2((uint64_t)(tag), SP_OLDW(state), (uint64_t)(buf), (uint64_t)(len), SP_CM(__CPROVER_old(state->count), __CPROVER_old(state->mode)))) \
__CPROVER_ensures(CANON_W(&state->state, 3) == __CPROVER_uninterpreted_L1_3((uint64_t)(tag), SP_OLDW(state), (uint64_t)(buf), (uint64_t)(len), SP_CM(__CPROVER_old(state->count), __CPROVER_old(state->mode)))) \
__CPROVER_ensures(CANON_W(&state->state, 4) == __CPROVER_uninterpreted_L1_4((uint64_t)(tag), SP_OLDW(state), (uint64_t)(buf), (uint64_t)(len), SP_CM(__CPROVER_old(state->count), __CPROVER_old(state->mode))))
#define SP_LOG_ENSURES(LOG, TAG, BUF, LEN) \
__CPROVER_ensures(LOG.count == __CPROVER_old(LOG.count) + 1 && LOG.tag == (TAG) && LOG.buf == (BUF) && LOG.len == (LEN) && \
    LOG.in_count == __CPROVER_old(state->count) && LOG.in_mode == __CPROVER_old(state->mode) && \
    LOG.in[0] == CANON_W_OLD(&state->state, 0) && LOG.in[1] == CANON_W_OLD(&state->state, 1) && \
    LOG.in[2] == CANON_W_OLD(&state->state, 2) && LOG.in[3] == CANON_W_OLD(&state->state, 3) && \
    LOG.in[4] == CANON_W_OLD(&state->state, 4))

/* absorb: count' = ((mode ? 0 : count) + len) mod rate_in, mode' = 0 */
#define SP_ABSORB_SUMMARY(TAG, RIN, ROUT) \
__CPROVER_requires(state->mode <= 1 && state->count < (state->mode ? (ROUT) : (RIN)) && inlen <= SP_MAX_LEN) \
__CPROVER_requires(__CPROVER_rw_ok(state, sizeof(*state)) && (inlen == 0 || __CPROVER_r_ok(in, inlen))) \
__CPROVER_assigns(*state, verif_absorb_log) \
SP_STATE_ENSURES(TAG, in, inlen) \
SP_LOG_ENSURES(verif_absorb_log, TAG, in, inlen) \
__CPROVER_ensures(state->mode == 0 && state->count == (unsigned char)((( __CPROVER_old(state->mode) ? 0 : __CPROVER_old(state->count)) + inlen) % (RIN)))

/* squeeze: count' = ((mode ? count : 0) + len) mod rate_out, mode' = 1 */
#define SP_WORD_BYTES(p, w) ((p)[0] == (uint8_t)((w) >> 56) && (p)[1] == (uint8_t)((w) >> 48) && (p)[2] == (uint8_t)((w) >> 40) && \
    (p)[3] == (uint8_t)((w) >> 32) && (p)[4] == (uint8_t)((w) >> 24) && (p)[5] == (uint8_t)((w) >> 16) && (p)[6] == (uint8_t)((w) >> 8) && (p)[7] == (uint8_t)(w))
#define SP_SQ_OLD(TAG, j) __CPROVER_uninterpreted_SQ((uint64_t)(TAG), SP_OLDW(state), SP_CM(__CPROVER_old(state->count), __CPROVER_old(state->mode)), (uint64_t)(j))
#define SP_SQUEEZE_SUMMARY(TAG, RIN, ROUT) \
__CPROVER_requires(state->mode <= 1 && state->count < (state->mode ? (ROUT) : (RIN)) && outlen <= SP_MAX_LEN) \
__CPROVER_requires(__CPROVER_rw_ok(state, sizeof(*state)) && (outlen == 0 || __CPROVER_w_ok(out, outlen))) \
__CPROVER_assigns(*state, verif_squeeze_log) \
__CPROVER_assigns(outlen > 0: __CPROVER_object_upto(out, outlen)) \
SP_STATE_ENSURES(TAG, 0, outlen) \
SP_LOG_ENSURES(verif_squeeze_log, TAG, out, outlen) \
__CPROVER_ensures(state->mode == 1 && state->count == (unsigned char)(((__CPROVER_old(state->mode) ? __CPROVER_old(state->count) : 0) + outlen) % (ROUT))) \
__CPROVER_ensures(outlen != 16 || (SP_WORD_BYTES(out, SP_SQ_OLD(TAG, 0)) && SP_WORD_BYTES(out + 8, SP_SQ_OLD(TAG, 1)))) \
__CPROVER_ensures(outlen != 32 || (SP_WORD_BYTES(out, SP_SQ_OLD(TAG, 0)) && SP_WORD_BYTES(out + 8, SP_SQ_OLD(TAG, 1)) && \
                                   SP_WORD_BYTES(out + 16, SP_SQ_OLD(TAG, 2)) && SP_WORD_BYTES(out + 24, SP_SQ_OLD(TAG, 3))))

#if !defined(VERIF_NO_XOF_SUMMARY)
void ascon_xof_absorb(ascon_xof_state_t *state, const unsigned char *in, size_t inlen) SP_ABSORB_SUMMARY(SP_TAG_XOF_ABSORB, 8, 8);
void ascon_xof_squeeze(ascon_xof_state_t *state, unsigned char *out, size_t outlen) SP_SQUEEZE_SUMMARY(SP_TAG_XOF_SQUEEZE, 8, 8);
#endif
#if !defined(VERIF_NO_XOFA_SUMMARY)
void ascon_xofa_absorb(ascon_xofa_state_t *state, const unsigned char *in, size_t inlen) SP_ABSORB_SUMMARY(SP_TAG_XOFA_ABSORB, 8, 8);
void ascon_xofa_squeeze(ascon_xofa_state_t *state, unsigned char *out, size_t outlen) SP_SQUEEZE_SUMMARY(SP_TAG_XOFA_SQUEEZE, 8, 8);
#endif
#if !defined(VERIF_NO_PRF_SUMMARY)
void ascon_prf_absorb(ascon_prf_state_t *state, const unsigned char *in, size_t inlen) SP_ABSORB_SUMMARY(SP_TAG_PRF_ABSORB, 32, 16);
void ascon_prf_squeeze(ascon_prf_state_t *state, unsigned char *out, size_t outlen) SP_SQUEEZE_SUMMARY(SP_TAG_PRF_SQUEEZE, 32, 16);
#endif

#endif
