/* The byte-operation contracts of contracts/c_byteops.h in REPLACED form
 * (used at call sites of L1/L2 functions): the same statements with the ghost
 * index instantiated at each of the 40 indices (40 explicit conjuncts), frame
 * exactly *state / exactly the output bytes.  The thorough tier of C08 also
 * ENFORCES this 40-conjunct form, so the two forms are tied by proof, not by
 * argument.  -DVERIF_REPLACE_BYTEOPS activates the declarations. */
#ifndef C_BYTEOPS_REPLACE_H
#define C_BYTEOPS_REPLACE_H
#include <ascon/permutation.h>
#include "verif_canon.h"

#define RIN(i, offset, size) ((unsigned)(i) >= (offset) && (unsigned)(i) - (offset) < (size))
#define RFITS(offset, size) ((offset) <= 40u && (size) <= 40u - (offset))
#define R40(M) \
    M(0) M(1) M(2) M(3) M(4) M(5) M(6) M(7) M(8) M(9) M(10) M(11) M(12) M(13) M(14) M(15) M(16) M(17) M(18) M(19) \
    M(20) M(21) M(22) M(23) M(24) M(25) M(26) M(27) M(28) M(29) M(30) M(31) M(32) M(33) M(34) M(35) M(36) M(37) M(38) M(39)

#define R_ADD(i) __CPROVER_ensures(CANON_B(state, i) == (uint8_t)(CANON_B_OLD(state, i) ^ \
        (RIN(i, offset, size) ? data[(i) - offset] : 0)))
#define R_OVW(i) __CPROVER_ensures(CANON_B(state, i) == (RIN(i, offset, size) ? data[(i) - offset] : CANON_B_OLD(state, i)))
#define R_ZERO(i) __CPROVER_ensures(CANON_B(state, i) == (RIN(i, offset, size) ? 0 : CANON_B_OLD(state, i)))
#define R_EXT(i) __CPROVER_ensures(!RIN(i, offset, size) || data[(i) - offset] == CANON_B(state, i))

#if defined(VERIF_REPLACE_BYTEOPS) || defined(VERIF_ENFORCE40_ascon_add_bytes)
void ascon_add_bytes(ascon_state_t *state, const uint8_t *data, unsigned offset, unsigned size)
__CPROVER_requires(RFITS(offset, size))
#if defined(VERIF_ENFORCE40_ascon_add_bytes)
__CPROVER_requires(__CPROVER_is_fresh(state, sizeof(ascon_state_t)) && __CPROVER_is_fresh(data, size))
#else
__CPROVER_requires(__CPROVER_rw_ok(state, sizeof(ascon_state_t)) && __CPROVER_r_ok(data, size))
#endif
__CPROVER_assigns(*state)
R40(R_ADD);
#endif

#if defined(VERIF_REPLACE_BYTEOPS) || defined(VERIF_ENFORCE40_ascon_overwrite_bytes)
void ascon_overwrite_bytes(ascon_state_t *state, const uint8_t *data, unsigned offset, unsigned size)
__CPROVER_requires(RFITS(offset, size))
#if defined(VERIF_ENFORCE40_ascon_overwrite_bytes)
__CPROVER_requires(__CPROVER_is_fresh(state, sizeof(ascon_state_t)) && __CPROVER_is_fresh(data, size))
#else
__CPROVER_requires(__CPROVER_rw_ok(state, sizeof(ascon_state_t)) && __CPROVER_r_ok(data, size))
#endif
__CPROVER_assigns(*state)
R40(R_OVW);
#endif

#if defined(VERIF_REPLACE_BYTEOPS) || defined(VERIF_ENFORCE40_ascon_overwrite_with_zeroes)
void ascon_overwrite_with_zeroes(ascon_state_t *state, unsigned offset, unsigned size)
__CPROVER_requires(RFITS(offset, size))
#if defined(VERIF_ENFORCE40_ascon_overwrite_with_zeroes)
__CPROVER_requires(__CPROVER_is_fresh(state, sizeof(ascon_state_t)))
#else
__CPROVER_requires(__CPROVER_rw_ok(state, sizeof(ascon_state_t)))
#endif
__CPROVER_assigns(*state)
R40(R_ZERO);
#endif

#if defined(VERIF_REPLACE_BYTEOPS) || defined(VERIF_ENFORCE40_ascon_extract_bytes)
void ascon_extract_bytes(const ascon_state_t *state, uint8_t *data, unsigned offset, unsigned size)
__CPROVER_requires(RFITS(offset, size))
#if defined(VERIF_ENFORCE40_ascon_extract_bytes)
__CPROVER_requires(__CPROVER_is_fresh(state, sizeof(ascon_state_t)) && __CPROVER_is_fresh(data, size))
#else
__CPROVER_requires(__CPROVER_r_ok(state, sizeof(ascon_state_t)) && __CPROVER_w_ok(data, size))
#endif
__CPROVER_assigns(size > 0: __CPROVER_object_upto(data, size))
R40(R_EXT);
#endif

#endif
