/* L1 contracts (enforced) of ascon_aead_encrypt_8/16 and ascon_aead_decrypt_8/16.
 * These loops write caller memory through moving pointers, which CBMC 6.11
 * loop contracts cannot abstract (DESIGN 2.9); they are proved from an
 * ARBITRARY entry state and entry position for every len below VERIF_LEN_BOUND
 * (2*rate: step proof, complete under that precondition; more: bounded plumbing).
 * The harness owns the buffers and has computed the byte-serial specification
 * into ghost objects before the call:
 *   verif_exp_out[j]  j-th output byte, verif_exp_state, verif_exp_pos.
 * Postcondition = closed form: every output byte (ghost index verif_i), the
 * whole state, the returned position; frame = dest[0..len) and *state. */
#ifndef C_AEAD_CRYPT_H
#define C_AEAD_CRYPT_H
#include <ascon/permutation.h>
#include <stddef.h>
#include "verif_canon.h"

extern unsigned char verif_exp_out[VERIF_LEN_BOUND];
extern spec_state verif_exp_state;
extern unsigned verif_exp_pos;
extern size_t verif_i;

#define CRYPT_CONTRACT(R) \
__CPROVER_requires(first_round <= 12 && partial < (R)) \
__CPROVER_assigns(*state) \
__CPROVER_assigns(len > 0: __CPROVER_object_upto(dest, len)) \
__CPROVER_ensures(__CPROVER_return_value == verif_exp_pos) \
__CPROVER_ensures(CANON_W(state, 0) == verif_exp_state.x[0] && CANON_W(state, 1) == verif_exp_state.x[1] && \
                  CANON_W(state, 2) == verif_exp_state.x[2] && CANON_W(state, 3) == verif_exp_state.x[3] && \
                  CANON_W(state, 4) == verif_exp_state.x[4]) \
__CPROVER_ensures(!(verif_i < len) || dest[verif_i] == verif_exp_out[verif_i])

#if defined(VERIF_ENFORCE_ascon_aead_encrypt_8)
unsigned char ascon_aead_encrypt_8(ascon_state_t *state, unsigned char *dest, const unsigned char *src,
                                   size_t len, uint8_t first_round, unsigned char partial) CRYPT_CONTRACT(8);
#endif
#if defined(VERIF_ENFORCE_ascon_aead_encrypt_16)
unsigned char ascon_aead_encrypt_16(ascon_state_t *state, unsigned char *dest, const unsigned char *src,
                                    size_t len, uint8_t first_round, unsigned char partial) CRYPT_CONTRACT(16);
#endif
#if defined(VERIF_ENFORCE_ascon_aead_decrypt_8)
unsigned char ascon_aead_decrypt_8(ascon_state_t *state, unsigned char *dest, const unsigned char *src,
                                   size_t len, uint8_t first_round, unsigned char partial) CRYPT_CONTRACT(8);
#endif
#if defined(VERIF_ENFORCE_ascon_aead_decrypt_16)
unsigned char ascon_aead_decrypt_16(ascon_state_t *state, unsigned char *dest, const unsigned char *src,
                                    size_t len, uint8_t first_round, unsigned char partial) CRYPT_CONTRACT(16);
#endif
#endif
