/* C02: exact contract of ascon_aead_check_tag (src/aead/ascon-aead-common.c).
 * Every call site passes size == 16.  Result 0 iff all 16 byte pairs are
 * equal, -1 otherwise and no other value; on mismatch every plaintext byte is
 * zero, on match every plaintext byte is unchanged (ghost index verif_i: any
 * index below plaintext_len); nothing else is written.  A null plaintext with
 * length 0 is what the incremental API passes. */
#ifndef C_CHECK_TAG_H
#define C_CHECK_TAG_H
#include <stddef.h>
#include "verif_expr.h"

extern size_t verif_i;
extern unsigned char verif_snap;   /* ghost: plaintext[verif_i] on entry */
#ifndef VERIF_MAXLEN
#define VERIF_MAXLEN 0
#endif

#define TAGEQ1(k) (tag1[k] == tag2[k])
#define TAGS_EQUAL (TAGEQ1(0) && TAGEQ1(1) && TAGEQ1(2) && TAGEQ1(3) && TAGEQ1(4) && TAGEQ1(5) && TAGEQ1(6) && TAGEQ1(7) && \
                    TAGEQ1(8) && TAGEQ1(9) && TAGEQ1(10) && TAGEQ1(11) && TAGEQ1(12) && TAGEQ1(13) && TAGEQ1(14) && TAGEQ1(15))

int ascon_aead_check_tag(unsigned char *plaintext, size_t plaintext_len,
                         const unsigned char *tag1, const unsigned char *tag2, size_t size)
__CPROVER_requires(size == 16)
__CPROVER_requires(plaintext_len <= VERIF_MAXLEN)
__CPROVER_requires(__CPROVER_is_fresh(tag1, 16) && __CPROVER_is_fresh(tag2, 16))
__CPROVER_requires((plaintext_len == 0 && plaintext == 0) || __CPROVER_is_fresh(plaintext, plaintext_len))
__CPROVER_requires(!(verif_i < plaintext_len) || verif_snap == plaintext[verif_i])
__CPROVER_assigns(plaintext_len > 0: __CPROVER_object_upto(plaintext, plaintext_len))
__CPROVER_ensures(__CPROVER_return_value == (TAGS_EQUAL ? 0 : -1))
__CPROVER_ensures(!(verif_i < plaintext_len) ||
                  plaintext[verif_i] == (TAGS_EQUAL ? verif_snap : 0));

#endif
