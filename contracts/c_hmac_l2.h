/* L2 contracts (enforced) of ASCON-HMAC / HMACA (src/mac/ascon-hmac-common.h,
 * instantiated by ascon-hmac.c and ascon-hmaca.c) against RFC 2104 with a
 * 64-byte block: H((K' ^ opad) || H((K' ^ ipad) || text)), K' = K zero-padded,
 * or H(K) zero-padded when K is longer than 64 bytes.  The hash is the
 * specification automaton (stub_sponge_spec.h); the harness has evaluated the
 * RFC 2104 reference into verif_exp_out / verif_exp before the call. */
#ifndef C_HMAC_L2_H
#define C_HMAC_L2_H
#include <ascon/hmac.h>
#include <ascon/hash.h>
#include "verif_canon.h"
#include "spec_xof.h"
#include "spec_sponge.h"

#include "stub_sponge_spec.h"
extern uint8_t verif_exp_out[32];
extern spec_sponge verif_exp;
#define HWORD(k, hi, lbits) SPEC_PW(k, (((uint64_t)(hi)) << 32) | (uint64_t)(lbits), 0, 0, 0, 0, 0)
#define HINIT_ABSTRACT(ST, hi) \
__CPROVER_requires(__CPROVER_rw_ok(state, sizeof(*state))) \
__CPROVER_assigns(*state) \
__CPROVER_ensures(CANON_W(&(ST)->state, 0) == HWORD(0, hi, 256) && CANON_W(&(ST)->state, 1) == HWORD(1, hi, 256) && \
                  CANON_W(&(ST)->state, 2) == HWORD(2, hi, 256) && CANON_W(&(ST)->state, 3) == HWORD(3, hi, 256) && \
                  CANON_W(&(ST)->state, 4) == HWORD(4, hi, 256) && (ST)->count == 0 && (ST)->mode == 0)
/* replaced: the (concretely verified, C03) initial value of the hash */
void ascon_hash_init(ascon_hash_state_t *state) HINIT_ABSTRACT(&state->xof, 0x00400c00u);
void ascon_hasha_init(ascon_hasha_state_t *state) HINIT_ABSTRACT(&state->xof, 0x00400c04u);

#define OUT32_IS_EXP(p) ((p)[0] == verif_exp_out[0] && (p)[1] == verif_exp_out[1] && (p)[2] == verif_exp_out[2] && (p)[3] == verif_exp_out[3] && \
  (p)[4] == verif_exp_out[4] && (p)[5] == verif_exp_out[5] && (p)[6] == verif_exp_out[6] && (p)[7] == verif_exp_out[7] && \
  (p)[8] == verif_exp_out[8] && (p)[9] == verif_exp_out[9] && (p)[10] == verif_exp_out[10] && (p)[11] == verif_exp_out[11] && \
  (p)[12] == verif_exp_out[12] && (p)[13] == verif_exp_out[13] && (p)[14] == verif_exp_out[14] && (p)[15] == verif_exp_out[15] && \
  (p)[16] == verif_exp_out[16] && (p)[17] == verif_exp_out[17] && (p)[18] == verif_exp_out[18] && (p)[19] == verif_exp_out[19] && \
  (p)[20] == verif_exp_out[20] && (p)[21] == verif_exp_out[21] && (p)[22] == verif_exp_out[22] && (p)[23] == verif_exp_out[23] && \
  (p)[24] == verif_exp_out[24] && (p)[25] == verif_exp_out[25] && (p)[26] == verif_exp_out[26] && (p)[27] == verif_exp_out[27] && \
  (p)[28] == verif_exp_out[28] && (p)[29] == verif_exp_out[29] && (p)[30] == verif_exp_out[30] && (p)[31] == verif_exp_out[31])
#define HST_IS_EXP(st) \
    (CANON_W(&(st)->state, 0) == verif_exp.s.x[0] && CANON_W(&(st)->state, 1) == verif_exp.s.x[1] && \
     CANON_W(&(st)->state, 2) == verif_exp.s.x[2] && CANON_W(&(st)->state, 3) == verif_exp.s.x[3] && \
     CANON_W(&(st)->state, 4) == verif_exp.s.x[4] && (st)->count == verif_exp.count && (st)->mode == verif_exp.mode)

#if defined(VERIF_ENFORCE_hmac)
void VERIF_FN(unsigned char *out, const unsigned char *key, size_t keylen, const unsigned char *in, size_t inlen)
__CPROVER_assigns(__CPROVER_object_upto(out, 32), stub_absorb_log, stub_squeeze_log)
__CPROVER_ensures(OUT32_IS_EXP(out));
#endif
#if defined(VERIF_ENFORCE_hmac_init) || defined(VERIF_ENFORCE_hmac_reinit)
/* the inner hash has absorbed exactly the 64-byte block K' ^ ipad */
void VERIF_FN(VERIF_T *state, const unsigned char *key, size_t keylen)
__CPROVER_assigns(*state, stub_absorb_log, stub_squeeze_log)
__CPROVER_ensures(HST_IS_EXP(&state->hash.xof));
#endif
#if defined(VERIF_ENFORCE_hmac_finalize)
/* out = H((K' ^ opad) || H(inner)) from an arbitrary inner hash state */
void VERIF_FN(VERIF_T *state, const unsigned char *key, size_t keylen, unsigned char *out)
__CPROVER_assigns(*state, __CPROVER_object_upto(out, 32), stub_absorb_log, stub_squeeze_log)
__CPROVER_ensures(OUT32_IS_EXP(out));
#endif
#endif
