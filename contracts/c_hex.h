/* C20: enforced contract of ascon_bytes_to_hex for EVERY input length (loop
 * contract, index-form writes): too small a buffer -> -1 and at most out[0]
 * written; else 2*inlen, two digits per byte in the requested case (ghost index
 * verif_j: any output position), NUL terminated, nothing beyond out[2*inlen]. */
#ifndef C_HEX_H
#define C_HEX_H
#include <ascon/utility.h>
#include "ascon-verif-ghost.h"
#if defined(VERIF_LC_hex_from)
/* ascon_bytes_from_hex for EVERY input length: the result and every decoded byte are
 * what the shadow automaton (the specification, include/ghost_hex.h) computes; -1 exactly
 * when it reports an error or ends on a dangling digit; only out[0..outlen) is written */
int ascon_bytes_from_hex(unsigned char *out, size_t outlen, const char *in, size_t inlen)
__CPROVER_requires(inlen <= 0x7fffffffu && outlen <= 0x7fffffffu)
__CPROVER_requires(__CPROVER_is_fresh(out, outlen) && __CPROVER_is_fresh(in, inlen))
__CPROVER_requires(verif_gpos == 0 && verif_ghave == 0 && verif_gerr == 0 && verif_ghi == 0)
__CPROVER_assigns(__CPROVER_object_whole(out), verif_gpos, verif_ghave, verif_ghi, verif_gerr, verif_expj)
__CPROVER_ensures(__CPROVER_return_value == ((verif_gerr || verif_ghave) ? -1 : (int)verif_gpos))
__CPROVER_ensures((verif_gerr || verif_ghave) || !(verif_j < verif_gpos) || out[verif_j] == verif_expj);
#else
int ascon_bytes_to_hex(char *out, size_t outlen, const unsigned char *in, size_t inlen, int upper_case)
__CPROVER_requires(inlen <= 0x3fffffff && outlen <= 0x7fffffffu)
__CPROVER_requires(__CPROVER_is_fresh(out, outlen) && __CPROVER_is_fresh(in, inlen))
__CPROVER_requires(verif_in0 == in && verif_inlen0 == inlen)
__CPROVER_assigns(outlen > 0: __CPROVER_object_whole(out))
__CPROVER_ensures(outlen >= 2 * inlen + 1 || __CPROVER_return_value == -1)
__CPROVER_ensures(outlen < 2 * inlen + 1 || __CPROVER_return_value == (int)(2 * inlen))
__CPROVER_ensures(outlen < 2 * inlen + 1 || !(verif_j < 2 * inlen) || out[verif_j] == VHEX(in[verif_j / 2], verif_j & 1, upper_case))
__CPROVER_ensures(outlen < 2 * inlen + 1 || out[2 * inlen] == 0);
#endif
#endif
