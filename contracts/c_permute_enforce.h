/* Enforced contract of ascon_permute (C08), stage B of include/ghost_permute.h:
 * T[min(first_round,12)] == canon(state) on entry, canon(state') == T[12] on
 * exit, where T is the trajectory of the executed rounds (each of which is
 * ref_round by the stage A lemma), i.e. canon(state') ==
 * ref_permute(canon(state), first_round).  Frame: only *state. */
#ifndef C_PERMUTE_ENFORCE_H
#define C_PERMUTE_ENFORCE_H
#include <ascon/permutation.h>
#include "verif_canon.h"
#include "ascon-verif-ghost.h"

void ascon_permute(ascon_state_t *state, uint8_t first_round)
__CPROVER_requires(__CPROVER_is_fresh(state, sizeof(ascon_state_t)))
#if !defined(VERIF_ANY_FIRST_ROUND)
__CPROVER_requires(first_round <= 12) /* C08: start rounds 0..11; 12 = no rounds */
#endif
__CPROVER_requires(VERIF_T_EQ(VERIF_IDX(first_round), CANON_W(state, 0), CANON_W(state, 1),
                              CANON_W(state, 2), CANON_W(state, 3), CANON_W(state, 4)))
__CPROVER_assigns(__CPROVER_object_whole(state))
__CPROVER_ensures(CANON_W(state, 0) == verif_T12.x[0])
__CPROVER_ensures(CANON_W(state, 1) == verif_T12.x[1])
__CPROVER_ensures(CANON_W(state, 2) == verif_T12.x[2])
__CPROVER_ensures(CANON_W(state, 3) == verif_T12.x[3])
__CPROVER_ensures(CANON_W(state, 4) == verif_T12.x[4]);

#endif
