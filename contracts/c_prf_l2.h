/* L2 contracts (enforced) of the ASCON-PRF family (src/mac/ascon-prf.c):
 * ascon_prf_fixed_init / ascon_prf_init, ascon_prf, ascon_prf_fixed, ascon_mac,
 * ascon_mac_verify, ascon_prf_short, against the ASCON-PRF / -MAC / -PRFshort
 * definitions, permutation abstract, absorb/squeeze replaced by summaries. */
#ifndef C_PRF_L2_H
#define C_PRF_L2_H
#include <ascon/prf.h>
#include "c_sponge_summary.h"
#include "spec_xof.h"

extern spec_sponge verif_exp;         /* expected session state (init) / state entering the absorb call */
extern spec_state verif_exp_sq_in;    /* expected state entering the squeeze call */
extern unsigned verif_exp_sq_count;
extern uint8_t verif_exp_out[16];
#define PST_IS_EXP(st) \
    (CANON_W(&(st)->state, 0) == verif_exp.s.x[0] && CANON_W(&(st)->state, 1) == verif_exp.s.x[1] && \
     CANON_W(&(st)->state, 2) == verif_exp.s.x[2] && CANON_W(&(st)->state, 3) == verif_exp.s.x[3] && \
     CANON_W(&(st)->state, 4) == verif_exp.s.x[4] && (st)->count == verif_exp.count && (st)->mode == verif_exp.mode)
#define ABS_LOG_IS(BUF, LEN) (verif_absorb_log.count == 1 && verif_absorb_log.buf == (BUF) && verif_absorb_log.len == (LEN) && \
    verif_absorb_log.in_count == 0 && verif_absorb_log.in_mode == 0 && \
    verif_absorb_log.in[0] == verif_exp.s.x[0] && verif_absorb_log.in[1] == verif_exp.s.x[1] && verif_absorb_log.in[2] == verif_exp.s.x[2] && \
    verif_absorb_log.in[3] == verif_exp.s.x[3] && verif_absorb_log.in[4] == verif_exp.s.x[4])
#define SQ_LOG_IS(BUF, LEN) (verif_squeeze_log.count == 1 && verif_squeeze_log.buf == (BUF) && verif_squeeze_log.len == (LEN) && \
    verif_squeeze_log.in_count == verif_exp_sq_count && verif_squeeze_log.in_mode == 0 && \
    verif_squeeze_log.in[0] == verif_exp_sq_in.x[0] && verif_squeeze_log.in[1] == verif_exp_sq_in.x[1] && verif_squeeze_log.in[2] == verif_exp_sq_in.x[2] && \
    verif_squeeze_log.in[3] == verif_exp_sq_in.x[3] && verif_squeeze_log.in[4] == verif_exp_sq_in.x[4])
#define OUT16_IS_EXP(p) ((p)[0] == verif_exp_out[0] && (p)[1] == verif_exp_out[1] && (p)[2] == verif_exp_out[2] && (p)[3] == verif_exp_out[3] && \
    (p)[4] == verif_exp_out[4] && (p)[5] == verif_exp_out[5] && (p)[6] == verif_exp_out[6] && (p)[7] == verif_exp_out[7] && \
    (p)[8] == verif_exp_out[8] && (p)[9] == verif_exp_out[9] && (p)[10] == verif_exp_out[10] && (p)[11] == verif_exp_out[11] && \
    (p)[12] == verif_exp_out[12] && (p)[13] == verif_exp_out[13] && (p)[14] == verif_exp_out[14] && (p)[15] == verif_exp_out[15])

#if defined(VERIF_ENFORCE_prf_fixed_init)
void ascon_prf_fixed_init(ascon_prf_state_t *state, const unsigned char *key, size_t outlen)
__CPROVER_assigns(*state) __CPROVER_ensures(PST_IS_EXP(state));
#endif
#if defined(VERIF_ENFORCE_prf_init)
void ascon_prf_init(ascon_prf_state_t *state, const unsigned char *key)
__CPROVER_assigns(*state) __CPROVER_ensures(PST_IS_EXP(state));
#endif
#if defined(VERIF_ENFORCE_prf) || defined(VERIF_ENFORCE_prf_fixed)
/* one absorb call on (in, inlen) from the keyed initial state, then one squeeze call for
 * (out, outlen) from the resulting state; nothing but out[0..outlen) is written */
void VERIF_FN(unsigned char *out, size_t outlen, const unsigned char *in, size_t inlen, const unsigned char *key)
__CPROVER_assigns(verif_absorb_log, verif_squeeze_log)
__CPROVER_assigns(outlen > 0: __CPROVER_object_upto(out, outlen))
__CPROVER_ensures(ABS_LOG_IS(in, inlen))
__CPROVER_ensures(SQ_LOG_IS(out, outlen));
#endif
#if defined(VERIF_ENFORCE_mac)
void ascon_mac(unsigned char *tag, const unsigned char *in, size_t inlen, const unsigned char *key)
__CPROVER_assigns(verif_absorb_log, verif_squeeze_log, __CPROVER_object_upto(tag, 16))
__CPROVER_ensures(ABS_LOG_IS(in, inlen))
__CPROVER_ensures(OUT16_IS_EXP(tag));
#endif
#if defined(VERIF_ENFORCE_mac_verify)
int ascon_aead_check_tag(unsigned char *plaintext, size_t plaintext_len,
                         const unsigned char *tag1, const unsigned char *tag2, size_t size)
__CPROVER_requires(size == 16 && plaintext_len == 0)
__CPROVER_requires(__CPROVER_r_ok(tag1, 16) && __CPROVER_r_ok(tag2, 16))
__CPROVER_assigns()
__CPROVER_ensures(__CPROVER_return_value == ((tag1[0] == tag2[0] && tag1[1] == tag2[1] && tag1[2] == tag2[2] && tag1[3] == tag2[3] &&
    tag1[4] == tag2[4] && tag1[5] == tag2[5] && tag1[6] == tag2[6] && tag1[7] == tag2[7] && tag1[8] == tag2[8] && tag1[9] == tag2[9] &&
    tag1[10] == tag2[10] && tag1[11] == tag2[11] && tag1[12] == tag2[12] && tag1[13] == tag2[13] && tag1[14] == tag2[14] &&
    tag1[15] == tag2[15]) ? 0 : -1));
/* success exactly when given the correct 16-byte tag */
int ascon_mac_verify(const unsigned char *tag, const unsigned char *in, size_t inlen, const unsigned char *key)
__CPROVER_assigns(verif_absorb_log, verif_squeeze_log)
__CPROVER_ensures(ABS_LOG_IS(in, inlen))
__CPROVER_ensures(__CPROVER_return_value == (OUT16_IS_EXP(tag) ? 0 : -1));
#endif
#if defined(VERIF_ENFORCE_prf_short)
extern size_t verif_i;
/* error and an empty frame when the input or output exceeds 16 bytes */
int ascon_prf_short(unsigned char *out, size_t outlen, const unsigned char *in, size_t inlen, const unsigned char *key)
__CPROVER_assigns((inlen <= 16 && outlen <= 16 && outlen > 0): __CPROVER_object_upto(out, outlen))
__CPROVER_ensures(__CPROVER_return_value == ((inlen > 16 || outlen > 16) ? -1 : 0))
__CPROVER_ensures(inlen > 16 || outlen > 16 || !(verif_i < outlen) || out[verif_i] == verif_exp_out[verif_i]);
#endif
#endif
