/* L2 contracts of the hash/XOF layer: ascon_{xof,xofa}_{init,init_fixed,
 * absorb_custom,init_custom,reinit*,copy,free}, ascon_{hash,hasha}_{init,
 * update,finalize,...} and the one-shot functions (C03, C07, C13).
 *
 * Two worlds:
 *  - concrete (-DVERIF_CONCRETE): no permutation call is involved; the
 *    pre-computed initial values are compared with ghost constants that the
 *    harness computes with ref_permute from the specification's IV block;
 *  - abstract (-DVERIF_ABSTRACT_P -DVERIF_L1_SUMMARY): the permutation is the
 *    uninterpreted spec_P; init == P(IV block) is what the concrete groups
 *    prove with P := ref_permute.
 * XP = xof | xofa selects the twin; XIV is the high IV word 0x00400c00
 * (XOF: k=0, r=64, a=12, a-b=0) or 0x00400c04 (XOFA: a-b=4). */
#ifndef C_XOF_L2_H
#define C_XOF_L2_H
#include <ascon/xof.h>
#include <ascon/hash.h>
#include "hash/ascon-xof-internal.h"
#include "verif_canon.h"
#include "spec_xof.h"

extern spec_sponge verif_exp;          /* expected (canon, count, mode) after the call */
#define XST_IS_EXP(st) \
    (CANON_W(&(st)->state, 0) == verif_exp.s.x[0] && CANON_W(&(st)->state, 1) == verif_exp.s.x[1] && \
     CANON_W(&(st)->state, 2) == verif_exp.s.x[2] && CANON_W(&(st)->state, 3) == verif_exp.s.x[3] && \
     CANON_W(&(st)->state, 4) == verif_exp.s.x[4] && (st)->count == verif_exp.count && (st)->mode == verif_exp.mode)

#define XIVWORD(hi, lbits) ((((uint64_t)(hi)) << 32) | (uint64_t)(uint32_t)(lbits))
/* declared output length: lengths of 2^29 bytes and above mean "arbitrary" (0) */
#define XCLAMP(outlen) ((outlen) >= (((size_t)1) << 29) ? (size_t)0 : (outlen))

#if defined(VERIF_ABSTRACT_P)
#include "c_sponge_summary.h"
/* state == P(IV word(L) || 0^256), count == mode == 0 */
#define XINIT_ABSTRACT(ST, hi, lbits) \
__CPROVER_requires(__CPROVER_rw_ok(state, sizeof(*state))) \
__CPROVER_assigns(*state) \
__CPROVER_ensures(CANON_W(&(ST)->state, 0) == SPEC_PW(0, XIVWORD(hi, lbits), 0, 0, 0, 0, 0)) \
__CPROVER_ensures(CANON_W(&(ST)->state, 1) == SPEC_PW(1, XIVWORD(hi, lbits), 0, 0, 0, 0, 0)) \
__CPROVER_ensures(CANON_W(&(ST)->state, 2) == SPEC_PW(2, XIVWORD(hi, lbits), 0, 0, 0, 0, 0)) \
__CPROVER_ensures(CANON_W(&(ST)->state, 3) == SPEC_PW(3, XIVWORD(hi, lbits), 0, 0, 0, 0, 0)) \
__CPROVER_ensures(CANON_W(&(ST)->state, 4) == SPEC_PW(4, XIVWORD(hi, lbits), 0, 0, 0, 0, 0)) \
__CPROVER_ensures((ST)->count == 0 && (ST)->mode == 0)

#if defined(VERIF_REPLACE_XOF_INIT)
void ascon_xof_init(ascon_xof_state_t *state) XINIT_ABSTRACT(state, 0x00400c00u, 0);
void ascon_xofa_init(ascon_xofa_state_t *state) XINIT_ABSTRACT(state, 0x00400c04u, 0);
void ascon_hash_init(ascon_hash_state_t *state) XINIT_ABSTRACT(&state->xof, 0x00400c00u, 256);
void ascon_hasha_init(ascon_hasha_state_t *state) XINIT_ABSTRACT(&state->xof, 0x00400c04u, 256);
#endif
#if defined(VERIF_REPLACE_XOF_INIT_FIXED) || defined(VERIF_ENFORCE_init_fixed_gen)
void ascon_xof_init_fixed(ascon_xof_state_t *state, size_t outlen) XINIT_ABSTRACT(state, 0x00400c00u, XCLAMP(outlen) * 8);
void ascon_xofa_init_fixed(ascon_xofa_state_t *state, size_t outlen) XINIT_ABSTRACT(state, 0x00400c04u, XCLAMP(outlen) * 8);
#endif
#endif /* VERIF_ABSTRACT_P */

/* everything else is enforced against the ghost expectation built by the harness */
#if defined(VERIF_ENFORCE_init) || defined(VERIF_ENFORCE_reinit)
void VERIF_FN(VERIF_T *state) __CPROVER_assigns(*state) __CPROVER_ensures(XST_IS_EXP(VERIF_XST(state)));
#endif
#if defined(VERIF_ENFORCE_init_fixed_const) || defined(VERIF_ENFORCE_reinit_fixed_const)
void VERIF_FN(VERIF_T *state, size_t outlen) __CPROVER_assigns(*state) __CPROVER_ensures(XST_IS_EXP(state));
#endif
#if defined(VERIF_ENFORCE_absorb_custom)
void VERIF_FN(VERIF_T *state, const unsigned char *custom, size_t customlen)
__CPROVER_assigns(*state, verif_absorb_log) __CPROVER_ensures(XST_IS_EXP(state))
__CPROVER_ensures(customlen == 0 ? verif_absorb_log.count == 0 :
    (verif_absorb_log.count == 1 && verif_absorb_log.buf == custom && verif_absorb_log.len == customlen));
#endif
#if defined(VERIF_ENFORCE_init_custom) || defined(VERIF_ENFORCE_reinit_custom)
void VERIF_FN(VERIF_T *state, const char *function_name, const unsigned char *custom, size_t customlen, size_t outlen)
__CPROVER_assigns(*state, verif_absorb_log, verif_squeeze_log) __CPROVER_ensures(XST_IS_EXP(state));
#endif
#if defined(VERIF_ENFORCE_oneshot)
extern uint8_t verif_exp_out[32];
void VERIF_FN(unsigned char *out, const unsigned char *in, size_t inlen)
__CPROVER_assigns(verif_absorb_log, verif_squeeze_log, __CPROVER_object_upto(out, 32))
__CPROVER_ensures(verif_absorb_log.count == 1 && verif_absorb_log.buf == in && verif_absorb_log.len == inlen)
__CPROVER_ensures(out[0] == verif_exp_out[0] && out[1] == verif_exp_out[1] && out[2] == verif_exp_out[2] && out[3] == verif_exp_out[3] &&
  out[4] == verif_exp_out[4] && out[5] == verif_exp_out[5] && out[6] == verif_exp_out[6] && out[7] == verif_exp_out[7] &&
  out[8] == verif_exp_out[8] && out[9] == verif_exp_out[9] && out[10] == verif_exp_out[10] && out[11] == verif_exp_out[11] &&
  out[12] == verif_exp_out[12] && out[13] == verif_exp_out[13] && out[14] == verif_exp_out[14] && out[15] == verif_exp_out[15] &&
  out[16] == verif_exp_out[16] && out[17] == verif_exp_out[17] && out[18] == verif_exp_out[18] && out[19] == verif_exp_out[19] &&
  out[20] == verif_exp_out[20] && out[21] == verif_exp_out[21] && out[22] == verif_exp_out[22] && out[23] == verif_exp_out[23] &&
  out[24] == verif_exp_out[24] && out[25] == verif_exp_out[25] && out[26] == verif_exp_out[26] && out[27] == verif_exp_out[27] &&
  out[28] == verif_exp_out[28] && out[29] == verif_exp_out[29] && out[30] == verif_exp_out[30] && out[31] == verif_exp_out[31]);
#endif
#if defined(VERIF_ENFORCE_copy)
void VERIF_FN(VERIF_T *dest, const VERIF_T *src)
__CPROVER_assigns(*dest) __CPROVER_ensures(XST_IS_EXP(VERIF_XST(dest)));
#endif
#if defined(VERIF_ENFORCE_free)
/* every named field of the object is zero afterwards: the 40 state bytes (ghost
 * index verif_i), count and mode; the struct's padding bytes are never written
 * by the library and hold no data (C13) */
extern size_t verif_i;
void VERIF_FN(VERIF_T *state)
__CPROVER_assigns(*state)
__CPROVER_ensures(!(verif_i < sizeof(ascon_state_t)) || ((const unsigned char *)&VERIF_XST(state)->state)[verif_i] == 0)
__CPROVER_ensures(VERIF_XST(state)->count == 0 && VERIF_XST(state)->mode == 0);
#endif

#endif
