/* Contracts of the state byte operations (C08, C12), stated over the 40
 * canonical big-endian bytes of the state (CANON_B), identical for every
 * backend representation.  Every postcondition covers the WHOLE view: for the
 * universally chosen ghost index verif_i (an unconstrained harness input in
 * 0..39, so the clause holds for every byte index) the byte has the specified
 * value if it is addressed and is unchanged otherwise.  A ghost index replaces
 * a quantifier (the SAT back end silently drops quantifiers) and is ~5x
 * cheaper than 40 explicit conjuncts.  -DVERIF_ENFORCE_<f> selects the
 * function whose contract is being enforced in this translation unit.
 *
 * data/input/output are objects of EXACTLY `size` bytes (one byte beyond is a
 * failed bounds obligation). */
#ifndef C_BYTEOPS_H
#define C_BYTEOPS_H
#include <ascon/permutation.h>
#include "verif_canon.h"

extern unsigned verif_i;   /* ghost: any byte index 0..39 */
extern uint8_t verif_snap; /* ghost: the input byte at the ghost index on entry (__CPROVER_old cannot hold a conditional) */

#define VIN(i, offset, size) ((unsigned)(i) >= (offset) && (unsigned)(i) - (offset) < (size))
#define VFITS(offset, size) ((offset) <= 40u && (size) <= 40u - (offset))
#define VI verif_i

#if defined(VERIF_ENFORCE_ascon_add_bytes)
void ascon_add_bytes(ascon_state_t *state, const uint8_t *data, unsigned offset, unsigned size)
__CPROVER_requires(VFITS(offset, size) && VI < 40)
__CPROVER_requires(__CPROVER_is_fresh(state, sizeof(ascon_state_t)))
__CPROVER_requires(__CPROVER_is_fresh(data, size))
__CPROVER_assigns(__CPROVER_object_whole(state))
__CPROVER_ensures(CANON_B(state, VI) == (uint8_t)(CANON_B_OLD(state, VI) ^
        (VIN(VI, offset, size) ? data[VI - offset] : 0)));
#endif

#if defined(VERIF_ENFORCE_ascon_overwrite_bytes)
void ascon_overwrite_bytes(ascon_state_t *state, const uint8_t *data, unsigned offset, unsigned size)
__CPROVER_requires(VFITS(offset, size) && VI < 40)
__CPROVER_requires(__CPROVER_is_fresh(state, sizeof(ascon_state_t)))
__CPROVER_requires(__CPROVER_is_fresh(data, size))
__CPROVER_assigns(__CPROVER_object_whole(state))
__CPROVER_ensures(CANON_B(state, VI) ==
        (VIN(VI, offset, size) ? data[VI - offset] : CANON_B_OLD(state, VI)));
#endif

#if defined(VERIF_ENFORCE_ascon_overwrite_with_zeroes)
void ascon_overwrite_with_zeroes(ascon_state_t *state, unsigned offset, unsigned size)
__CPROVER_requires(VFITS(offset, size) && VI < 40)
__CPROVER_requires(__CPROVER_is_fresh(state, sizeof(ascon_state_t)))
__CPROVER_assigns(__CPROVER_object_whole(state))
__CPROVER_ensures(CANON_B(state, VI) == (VIN(VI, offset, size) ? 0 : CANON_B_OLD(state, VI)));
#endif

#if defined(VERIF_ENFORCE_ascon_extract_bytes)
void ascon_extract_bytes(const ascon_state_t *state, uint8_t *data, unsigned offset, unsigned size)
__CPROVER_requires(VFITS(offset, size) && VI < 40)
__CPROVER_requires(__CPROVER_is_fresh(state, sizeof(ascon_state_t)))
__CPROVER_requires(__CPROVER_is_fresh(data, size))
__CPROVER_assigns(size > 0: __CPROVER_object_upto(data, size))
__CPROVER_ensures(!VIN(VI, offset, size) || data[VI - offset] == CANON_B(state, VI))
__CPROVER_ensures(CANON_B(state, VI) == CANON_B_OLD(state, VI));
#endif

#if defined(VERIF_ENFORCE_ascon_extract_and_add_bytes)
/* output[j] = input[j] ^ state byte; input == output allowed (-DVERIF_ALIAS) */
void ascon_extract_and_add_bytes(const ascon_state_t *state, const uint8_t *input, uint8_t *output,
                                 unsigned offset, unsigned size)
__CPROVER_requires(VFITS(offset, size) && VI < 40)
__CPROVER_requires(__CPROVER_is_fresh(state, sizeof(ascon_state_t)))
__CPROVER_requires(__CPROVER_is_fresh(output, size))
#if defined(VERIF_ALIAS)
__CPROVER_requires(input == output)
#else
__CPROVER_requires(__CPROVER_is_fresh(input, size))
#endif
__CPROVER_requires(!VIN(VI, offset, size) || verif_snap == input[VI - offset])
__CPROVER_assigns(size > 0: __CPROVER_object_upto(output, size))
__CPROVER_ensures(!VIN(VI, offset, size) || output[VI - offset] == (uint8_t)(verif_snap ^ CANON_B(state, VI)))
__CPROVER_ensures(CANON_B(state, VI) == CANON_B_OLD(state, VI));
#endif

#if defined(VERIF_ENFORCE_ascon_extract_and_overwrite_bytes)
/* output[j] = input[j] ^ state byte, state byte := input[j]; input == output allowed */
void ascon_extract_and_overwrite_bytes(ascon_state_t *state, const uint8_t *input, uint8_t *output,
                                       unsigned offset, unsigned size)
__CPROVER_requires(VFITS(offset, size) && VI < 40)
__CPROVER_requires(__CPROVER_is_fresh(state, sizeof(ascon_state_t)))
__CPROVER_requires(__CPROVER_is_fresh(output, size))
#if defined(VERIF_ALIAS)
__CPROVER_requires(input == output)
#else
__CPROVER_requires(__CPROVER_is_fresh(input, size))
#endif
__CPROVER_requires(!VIN(VI, offset, size) || verif_snap == input[VI - offset])
__CPROVER_assigns(__CPROVER_object_whole(state))
__CPROVER_assigns(size > 0: __CPROVER_object_upto(output, size))
__CPROVER_ensures(!VIN(VI, offset, size) || output[VI - offset] ==
        (uint8_t)(verif_snap ^ CANON_B_OLD(state, VI)))
__CPROVER_ensures(CANON_B(state, VI) == (VIN(VI, offset, size) ? verif_snap : CANON_B_OLD(state, VI)));
#endif

#if defined(VERIF_ENFORCE_ascon_init)
void ascon_init(ascon_state_t *state)
__CPROVER_requires(__CPROVER_is_fresh(state, sizeof(ascon_state_t)))
__CPROVER_assigns(__CPROVER_object_whole(state))
__CPROVER_ensures(CANON_W(state, 0) == 0 && CANON_W(state, 1) == 0 && CANON_W(state, 2) == 0 &&
                  CANON_W(state, 3) == 0 && CANON_W(state, 4) == 0);
#endif

#if defined(VERIF_ENFORCE_ascon_copy)
#define E_COPY(i) __CPROVER_ensures(CANON_W(dest, i) == CANON_W(src, i) && CANON_W(src, i) == CANON_W_OLD(src, i))
void ascon_copy(ascon_state_t *dest, const ascon_state_t *src)
__CPROVER_requires(__CPROVER_is_fresh(dest, sizeof(ascon_state_t)))
__CPROVER_requires(__CPROVER_is_fresh(src, sizeof(ascon_state_t)))
__CPROVER_assigns(__CPROVER_object_whole(dest))
E_COPY(0) E_COPY(1) E_COPY(2) E_COPY(3) E_COPY(4);
#endif

#endif
