/* L1 contracts (enforced) of the data loops of src/aead/ascon-aead-common.c.
 * The semantic obligations of the read-only absorb loops are the per-iteration
 * spec-step assertions of include/ghost_aead.h; this file gives shapes
 * (exactly-sized fresh buffers), the entry snapshot and the frame. */
#ifndef C_AEAD_L1_H
#define C_AEAD_L1_H
#include <ascon/permutation.h>
#include <stddef.h>

#define VERIF_MAX_LEN ((size_t)1 << 40)
extern const unsigned char *verif_d0;
extern size_t verif_len0;

#if defined(VERIF_ENFORCE_ascon_aead_absorb_8) || defined(VERIF_ENFORCE_ascon_aead_absorb_16)
#define ABSORB_CONTRACT \
__CPROVER_requires(len <= VERIF_MAX_LEN && first_round <= 12) \
__CPROVER_requires(__CPROVER_is_fresh(state, sizeof(ascon_state_t))) \
__CPROVER_requires(__CPROVER_is_fresh(data, len)) \
__CPROVER_requires(verif_d0 == data && verif_len0 == len) \
__CPROVER_assigns(__CPROVER_object_whole(state))
void ascon_aead_absorb_8(ascon_state_t *state, const unsigned char *data, size_t len, uint8_t first_round, int last_permute)
ABSORB_CONTRACT;
void ascon_aead_absorb_16(ascon_state_t *state, const unsigned char *data, size_t len, uint8_t first_round, int last_permute)
ABSORB_CONTRACT;
#endif

#endif
