/* C19: contracts for apps/asconcrypt/fileops.c (POSIX descriptor variant).
 * read()/write() are REPLACED by contracts that may fail or transfer short on
 * any call; the ghost verif_hard_fail records a non-retryable failure.
 * safe_file_read / safe_file_write are ENFORCED (transfer loops by loop contract,
 * any number of short transfers):
 *   result == -1  <=>  an underlying call failed with an error other than EINTR/EAGAIN
 *   otherwise 0 <= result <= len; for write, result == len unless write() returned 0 early
 *   only data[0..len) (read) / nothing (write) is written. */
#ifndef C_FILEOPS_H
#define C_FILEOPS_H
#include "../../repo/apps/asconcrypt/fileops.h"
#include <errno.h>
#include <unistd.h>
extern int verif_errno;
extern int verif_hard_fail;
extern unsigned verif_io_calls;
extern int verif_read_failed, verif_write_failed;

ssize_t read(int fd, void *buf, size_t count)
__CPROVER_requires(count == 0 || __CPROVER_w_ok(buf, count))
__CPROVER_assigns(verif_errno, verif_io_calls, verif_hard_fail)
__CPROVER_assigns(count > 0: __CPROVER_object_whole(buf))
__CPROVER_ensures(__CPROVER_return_value >= -1 && __CPROVER_return_value <= (ssize_t)count)
__CPROVER_ensures(verif_hard_fail == (__CPROVER_old(verif_hard_fail) ||
                  (__CPROVER_return_value < 0 && verif_errno != EINTR && verif_errno != EAGAIN)));

ssize_t write(int fd, const void *buf, size_t count)
__CPROVER_requires(count == 0 || __CPROVER_r_ok(buf, count))
__CPROVER_assigns(verif_errno, verif_io_calls, verif_hard_fail)
__CPROVER_ensures(__CPROVER_return_value >= -1 && __CPROVER_return_value <= (ssize_t)count)
__CPROVER_ensures(verif_hard_fail == (__CPROVER_old(verif_hard_fail) ||
                  (__CPROVER_return_value < 0 && verif_errno != EINTR && verif_errno != EAGAIN)));

#if defined(VERIF_ENFORCE_safe_file_read)
int safe_file_read(SAFEFILE *file, void *data, size_t len)
__CPROVER_requires(len <= 0x3fffffff && verif_hard_fail == 0)
__CPROVER_requires(__CPROVER_is_fresh(file, sizeof(SAFEFILE)) && __CPROVER_is_fresh(data, len))
__CPROVER_assigns(verif_errno, verif_io_calls, verif_hard_fail, __CPROVER_object_whole(data))
__CPROVER_ensures((__CPROVER_return_value == -1) == (verif_hard_fail != 0))
__CPROVER_ensures(__CPROVER_return_value >= -1 && (__CPROVER_return_value < 0 || (size_t)__CPROVER_return_value <= len));
#endif
#if defined(VERIF_ENFORCE_safe_file_write)
int safe_file_write(SAFEFILE *file, const void *data, size_t len)
__CPROVER_requires(len <= 0x3fffffff && verif_hard_fail == 0)
__CPROVER_requires(__CPROVER_is_fresh(file, sizeof(SAFEFILE)) && __CPROVER_is_fresh(data, len))
__CPROVER_assigns(verif_errno, verif_io_calls, verif_hard_fail)
__CPROVER_ensures((__CPROVER_return_value == -1) == (verif_hard_fail != 0))
__CPROVER_ensures(__CPROVER_return_value >= -1 && (__CPROVER_return_value < 0 || (size_t)__CPROVER_return_value <= len));
#endif
#endif
