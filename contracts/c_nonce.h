/* C14: closed-form contracts of the nonce helpers (src/aead/ascon-aead-util.c). */
#ifndef C_NONCE_H
#define C_NONCE_H
#include <ascon/aead.h>
#include "verif_expr.h"

/* +1 mod 2^128 on the 16-byte big-endian integer: the low half always
 * advances by one, the high half by the carry out of the low half */
void ascon_aead_increment_nonce(unsigned char npub[ASCON128_NONCE_SIZE])
__CPROVER_requires(__CPROVER_is_fresh(npub, ASCON128_NONCE_SIZE))
__CPROVER_assigns(__CPROVER_object_upto(npub, ASCON128_NONCE_SIZE))
__CPROVER_ensures(VBE64(npub + 8) == (uint64_t)(VBE64_OLD(npub + 8) + 1u))
__CPROVER_ensures(VBE64(npub) == (uint64_t)(VBE64_OLD(npub) +
                  (VBE64_OLD(npub + 8) == 0xFFFFFFFFFFFFFFFFULL ? 1u : 0u)));

/* bytes 0..7 zero, bytes 8..15 the counter, big-endian */
void ascon_aead_set_counter(unsigned char npub[ASCON128_NONCE_SIZE], uint64_t n)
__CPROVER_requires(__CPROVER_is_fresh(npub, ASCON128_NONCE_SIZE))
__CPROVER_assigns(__CPROVER_object_upto(npub, ASCON128_NONCE_SIZE))
__CPROVER_ensures(VBE64(npub) == 0)
__CPROVER_ensures(VBE64(npub + 8) == n);

#endif
