/* Enforced contract of ascon_x{2,3,4}_permute (C10), stage B: on entry the
 * UNMASKED state equals T[min(first_round,12)], on exit it equals T[12] =
 * ref_permute(unmasked state, first_round), for every share pattern and every
 * value of the preserved randomness.  Frame: the masked state and the
 * preserved-randomness words. */
#ifndef C_MASKED_PERMUTE_H
#define C_MASKED_PERMUTE_H
#include <ascon/masking.h>
#include "masking/ascon-masked-state.h"
#include "ascon-verif-ghost.h"
#define MU_UNROT(x, k) ((uint64_t)(((uint64_t)(x) << (11 * (k))) | ((uint64_t)(x) >> (64 - 11 * (k)))))
#if NS == 2
#define MU(st, i) ((st)->M[i].S[0] ^ MU_UNROT((st)->M[i].S[1], 1))
#elif NS == 3
#define MU(st, i) ((st)->M[i].S[0] ^ MU_UNROT((st)->M[i].S[1], 1) ^ MU_UNROT((st)->M[i].S[2], 2))
#else
#define MU(st, i) ((st)->M[i].S[0] ^ MU_UNROT((st)->M[i].S[1], 1) ^ MU_UNROT((st)->M[i].S[2], 2) ^ MU_UNROT((st)->M[i].S[3], 3))
#endif
void VERIF_FN(ascon_masked_state_t *state, uint8_t first_round, uint64_t *preserve)
__CPROVER_requires(first_round <= 12)
__CPROVER_requires(__CPROVER_is_fresh(state, sizeof(ascon_masked_state_t)) && __CPROVER_is_fresh(preserve, 8 * (NS - 1)))
__CPROVER_requires(VERIF_T_EQ(VERIF_IDX(first_round), MU(state, 0), MU(state, 1), MU(state, 2), MU(state, 3), MU(state, 4)))
__CPROVER_assigns(__CPROVER_object_whole(state), __CPROVER_object_whole(preserve))
__CPROVER_ensures(MU(state, 0) == verif_T12.x[0] && MU(state, 1) == verif_T12.x[1] && MU(state, 2) == verif_T12.x[2] &&
                  MU(state, 3) == verif_T12.x[3] && MU(state, 4) == verif_T12.x[4]);
#endif
