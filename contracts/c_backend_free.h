/* ascon_backend_free of the assembly backend: clears registers, must not touch memory (frame: nothing). */
#ifndef C_BACKEND_FREE_H
#define C_BACKEND_FREE_H
#include <ascon/permutation.h>
void ascon_backend_free(ascon_state_t *state)
__CPROVER_requires(__CPROVER_is_fresh(state, sizeof(ascon_state_t)))
__CPROVER_assigns();
#endif
